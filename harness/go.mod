module exoverif

go 1.23

toolchain go1.23.5

require (
	cosmossdk.io/math v1.2.0
	github.com/ExocoreNetwork/exocore v0.0.0
	github.com/cometbft/cometbft v0.37.4
	github.com/cometbft/cometbft-db v0.8.0
	github.com/cosmos/cosmos-sdk v0.47.8
	github.com/ethereum/go-ethereum v1.13.5-0.20231027145059-2d7dba024d76
	github.com/evmos/evmos/v16 v16.0.0
	github.com/prysmaticlabs/prysm/v4 v4.2.1
	pgregory.net/rapid v1.3.0
)

require (
	cloud.google.com/go v0.111.0 // indirect
	cloud.google.com/go/compute/metadata v0.2.3 // indirect
	cloud.google.com/go/iam v1.1.5 // indirect
	cloud.google.com/go/storage v1.35.1 // indirect
	cosmossdk.io/api v0.3.1 // indirect
	cosmossdk.io/core v0.6.1 // indirect
	cosmossdk.io/depinject v1.0.0-alpha.4 // indirect
	cosmossdk.io/errors v1.0.1 // indirect
	cosmossdk.io/log v1.3.0 // indirect
	cosmossdk.io/simapp v0.0.0-20230608160436-666c345ad23d // indirect
	cosmossdk.io/tools/rosetta v0.2.1 // indirect
	filippo.io/edwards25519 v1.0.0 // indirect
	github.com/99designs/keyring v1.2.1 // indirect
	github.com/ChainSafe/go-schnorrkel v1.0.0 // indirect
	github.com/VictoriaMetrics/fastcache v1.12.1 // indirect
	github.com/alitto/pond v1.8.3 // indirect
	github.com/armon/go-metrics v0.4.1 // indirect
	github.com/aws/aws-sdk-go v1.44.224 // indirect
	github.com/beorn7/perks v1.0.1 // indirect
	github.com/bgentry/go-netrc v0.0.0-20140422174119-9fd32a8b3d3d // indirect
	github.com/bgentry/speakeasy v0.1.1-0.20220910012023-760eaf8b6816 // indirect
	github.com/btcsuite/btcd/btcec/v2 v2.3.2 // indirect
	github.com/cenkalti/backoff/v4 v4.1.3 // indirect
	github.com/cespare/xxhash/v2 v2.2.0 // indirect
	github.com/chzyer/readline v1.5.1 // indirect
	github.com/cockroachdb/apd/v2 v2.0.2 // indirect
	github.com/cockroachdb/errors v1.10.0 // indirect
	github.com/cockroachdb/logtags v0.0.0-20230118201751-21c54148d20b // indirect
	github.com/cockroachdb/redact v1.1.5 // indirect
	github.com/coinbase/rosetta-sdk-go/types v1.0.0 // indirect
	github.com/confio/ics23/go v0.9.0 // indirect
	github.com/cosmos/btcutil v1.0.5 // indirect
	github.com/cosmos/cosmos-proto v1.0.0-beta.3 // indirect
	github.com/cosmos/go-bip39 v1.0.0 // indirect
	github.com/cosmos/gogogateway v1.2.0 // indirect
	github.com/cosmos/gogoproto v1.4.11 // indirect
	github.com/cosmos/iavl v0.21.0-alpha.1.0.20230904092046-df3db2d96583 // indirect
	github.com/cosmos/ibc-go/v7 v7.4.0 // indirect
	github.com/cosmos/ics23/go v0.10.0 // indirect
	github.com/cosmos/rosetta-sdk-go v0.10.0 // indirect
	github.com/creachadair/taskgroup v0.4.2 // indirect
	github.com/crypto-org-chain/cronos/memiavl v0.0.5-0.20231027074119-c05c9c61c90e // indirect
	github.com/crypto-org-chain/cronos/store v0.0.5-0.20231027074119-c05c9c61c90e // indirect
	github.com/davecgh/go-spew v1.1.2-0.20180830191138-d8f796af33cc // indirect
	github.com/deckarep/golang-set v1.8.0 // indirect
	github.com/decred/dcrd/dcrec/secp256k1/v4 v4.2.0 // indirect
	github.com/desertbit/timer v0.0.0-20180107155436-c41aec40b27f // indirect
	github.com/dlclark/regexp2 v1.7.0 // indirect
	github.com/dop251/goja v0.0.0-20230806174421-c933cf95e127 // indirect
	github.com/dvsekhvalnov/jose2go v1.5.1-0.20231206184617-48ba0b76bc88 // indirect
	github.com/edsrzf/mmap-go v1.1.0 // indirect
	github.com/felixge/httpsnoop v1.0.2 // indirect
	github.com/fsnotify/fsnotify v1.7.0 // indirect
	github.com/gballet/go-libpcsclite v0.0.0-20191108122812-4678299bea08 // indirect
	github.com/getsentry/sentry-go v0.23.0 // indirect
	github.com/go-kit/kit v0.12.0 // indirect
	github.com/go-kit/log v0.2.1 // indirect
	github.com/go-logfmt/logfmt v0.6.0 // indirect
	github.com/go-logr/logr v1.3.0 // indirect
	github.com/go-logr/stdr v1.2.2 // indirect
	github.com/go-sourcemap/sourcemap v2.1.3+incompatible // indirect
	github.com/go-stack/stack v1.8.1 // indirect
	github.com/godbus/dbus v0.0.0-20190726142602-4481cbc300e2 // indirect
	github.com/gogo/googleapis v1.4.1 // indirect
	github.com/gogo/protobuf v1.3.2 // indirect
	github.com/golang/groupcache v0.0.0-20210331224755-41bb18bfe9da // indirect
	github.com/golang/mock v1.6.0 // indirect
	github.com/golang/protobuf v1.5.4 // indirect
	github.com/golang/snappy v0.0.5-0.20220116011046-fa5810519dcb // indirect
	github.com/google/btree v1.1.2 // indirect
	github.com/google/go-cmp v0.6.0 // indirect
	github.com/google/orderedcode v0.0.1 // indirect
	github.com/google/pprof v0.0.0-20231023181126-ff6d637d2a7b // indirect
	github.com/google/s2a-go v0.1.7 // indirect
	github.com/google/uuid v1.6.0 // indirect
	github.com/googleapis/enterprise-certificate-proxy v0.3.2 // indirect
	github.com/googleapis/gax-go/v2 v2.12.0 // indirect
	github.com/gorilla/handlers v1.5.1 // indirect
	github.com/gorilla/mux v1.8.1 // indirect
	github.com/gorilla/websocket v1.5.1 // indirect
	github.com/grpc-ecosystem/go-grpc-middleware v1.4.0 // indirect
	github.com/grpc-ecosystem/grpc-gateway v1.16.0 // indirect
	github.com/gsterjov/go-libsecret v0.0.0-20161001094733-a6f4afe4910c // indirect
	github.com/gtank/merlin v0.1.1 // indirect
	github.com/gtank/ristretto255 v0.1.2 // indirect
	github.com/hashicorp/go-cleanhttp v0.5.2 // indirect
	github.com/hashicorp/go-getter v1.7.5 // indirect
	github.com/hashicorp/go-immutable-radix v1.3.1 // indirect
	github.com/hashicorp/go-safetemp v1.0.0 // indirect
	github.com/hashicorp/go-version v1.6.0 // indirect
	github.com/hashicorp/golang-lru v0.5.5-0.20210104140557-80c98217689d // indirect
	github.com/hashicorp/hcl v1.0.0 // indirect
	github.com/hdevalence/ed25519consensus v0.1.0 // indirect
	github.com/herumi/bls-eth-go-binary v0.0.0-20210917013441-d37c07cfda4e // indirect
	github.com/holiman/bloomfilter/v2 v2.0.3 // indirect
	github.com/holiman/uint256 v1.2.4 // indirect
	github.com/huandu/skiplist v1.2.0 // indirect
	github.com/huin/goupnp v1.3.0 // indirect
	github.com/improbable-eng/grpc-web v0.15.0 // indirect
	github.com/jackpal/go-nat-pmp v1.0.2 // indirect
	github.com/jmespath/go-jmespath v0.4.0 // indirect
	github.com/klauspost/compress v1.17.2 // indirect
	github.com/klauspost/cpuid/v2 v2.2.5 // indirect
	github.com/kr/pretty v0.3.1 // indirect
	github.com/kr/text v0.2.0 // indirect
	github.com/ledgerwatch/erigon-lib v0.0.0-20230210071639-db0e7ed11263 // indirect
	github.com/lib/pq v1.10.9 // indirect
	github.com/libp2p/go-buffer-pool v0.1.0 // indirect
	github.com/magiconair/properties v1.8.7 // indirect
	github.com/manifoldco/promptui v0.9.0 // indirect
	github.com/mattn/go-colorable v0.1.13 // indirect
	github.com/mattn/go-isatty v0.0.20 // indirect
	github.com/mattn/go-runewidth v0.0.14 // indirect
	github.com/matttproud/golang_protobuf_extensions v1.0.4 // indirect
	github.com/mimoo/StrobeGo v0.0.0-20210601165009-122bf33a46e0 // indirect
	github.com/minio/highwayhash v1.0.2 // indirect
	github.com/minio/sha256-simd v1.0.1 // indirect
	github.com/mitchellh/go-homedir v1.1.0 // indirect
	github.com/mitchellh/go-testing-interface v1.14.1 // indirect
	github.com/mitchellh/mapstructure v1.5.0 // indirect
	github.com/mohae/deepcopy v0.0.0-20170929034955-c48cc78d4826 // indirect
	github.com/mtibben/percent v0.2.1 // indirect
	github.com/olekukonko/tablewriter v0.0.5 // indirect
	github.com/pelletier/go-toml/v2 v2.1.0 // indirect
	github.com/pkg/errors v0.9.1 // indirect
	github.com/pmezard/go-difflib v1.0.1-0.20181226105442-5d4384ee4fb2 // indirect
	github.com/prometheus/client_golang v1.16.0 // indirect
	github.com/prometheus/client_model v0.4.0 // indirect
	github.com/prometheus/common v0.44.0 // indirect
	github.com/prometheus/procfs v0.11.0 // indirect
	github.com/prometheus/tsdb v0.10.0 // indirect
	github.com/prysmaticlabs/fastssz v0.0.0-20221107182844-78142813af44 // indirect
	github.com/prysmaticlabs/gohashtree v0.0.3-alpha // indirect
	github.com/rakyll/statik v0.1.7 // indirect
	github.com/rcrowley/go-metrics v0.0.0-20201227073835-cf1acfcdf475 // indirect
	github.com/rivo/uniseg v0.4.4 // indirect
	github.com/rjeczalik/notify v0.9.3 // indirect
	github.com/rogpeppe/go-internal v1.11.0 // indirect
	github.com/rs/cors v1.11.0 // indirect
	github.com/rs/zerolog v1.31.0 // indirect
	github.com/sagikazarmark/slog-shim v0.1.0 // indirect
	github.com/shirou/gopsutil v3.21.11+incompatible // indirect
	github.com/sirupsen/logrus v1.9.0 // indirect
	github.com/spf13/afero v1.11.0 // indirect
	github.com/spf13/cast v1.6.0 // indirect
	github.com/spf13/cobra v1.8.0 // indirect
	github.com/spf13/pflag v1.0.5 // indirect
	github.com/spf13/viper v1.18.2 // indirect
	github.com/status-im/keycard-go v0.2.0 // indirect
	github.com/stretchr/testify v1.8.4 // indirect
	github.com/subosito/gotenv v1.6.0 // indirect
	github.com/supranational/blst v0.3.11 // indirect
	github.com/syndtr/goleveldb v1.0.1-0.20220721030215-126854af5e6d // indirect
	github.com/tendermint/go-amino v0.16.0 // indirect
	github.com/thomaso-mirodin/intmath v0.0.0-20160323211736-5dc6d854e46e // indirect
	github.com/tidwall/btree v1.6.0 // indirect
	github.com/tidwall/gjson v1.17.0 // indirect
	github.com/tidwall/match v1.1.1 // indirect
	github.com/tidwall/pretty v1.2.0 // indirect
	github.com/tidwall/sjson v1.2.5 // indirect
	github.com/tidwall/tinylru v1.1.0 // indirect
	github.com/tidwall/wal v1.1.7 // indirect
	github.com/tklauser/go-sysconf v0.3.12 // indirect
	github.com/tklauser/numcpus v0.6.1 // indirect
	github.com/tyler-smith/go-bip39 v1.1.0 // indirect
	github.com/ulikunitz/xz v0.5.11 // indirect
	github.com/zbiljic/go-filelock v0.0.0-20170914061330-1dbf7103ab7d // indirect
	go.opencensus.io v0.24.0 // indirect
	go.opentelemetry.io/otel v1.19.0 // indirect
	go.opentelemetry.io/otel/metric v1.19.0 // indirect
	go.opentelemetry.io/otel/trace v1.19.0 // indirect
	golang.org/x/crypto v0.21.0 // indirect
	golang.org/x/exp v0.0.0-20231214170342-aacd6d4b4611 // indirect
	golang.org/x/net v0.23.0 // indirect
	golang.org/x/oauth2 v0.15.0 // indirect
	golang.org/x/sync v0.6.0 // indirect
	golang.org/x/sys v0.18.0 // indirect
	golang.org/x/term v0.18.0 // indirect
	golang.org/x/text v0.14.0 // indirect
	golang.org/x/time v0.5.0 // indirect
	golang.org/x/xerrors v0.0.0-20220907171357-04be3eba64a2 // indirect
	google.golang.org/api v0.153.0 // indirect
	google.golang.org/genproto v0.0.0-20240102182953-50ed04b92917 // indirect
	google.golang.org/genproto/googleapis/api v0.0.0-20231212172506-995d672761c0 // indirect
	google.golang.org/genproto/googleapis/rpc v0.0.0-20240108191215-35c7eff3a6b1 // indirect
	google.golang.org/grpc v1.60.1 // indirect
	google.golang.org/protobuf v1.33.0 // indirect
	gopkg.in/ini.v1 v1.67.0 // indirect
	gopkg.in/yaml.v2 v2.4.0 // indirect
	gopkg.in/yaml.v3 v3.0.1 // indirect
	nhooyr.io/websocket v1.8.7 // indirect
	sigs.k8s.io/yaml v1.4.0 // indirect
)

replace (
	// use cosmos fork of keyring
	github.com/99designs/keyring => github.com/cosmos/keyring v1.2.0
	github.com/ExocoreNetwork/exocore => /repo
	// use Cosmos-SDK fork to enable Ledger functionality
	github.com/cosmos/cosmos-sdk => github.com/evmos/cosmos-sdk v0.47.5-evmos.2
	//fix cosmos-sdk error
	github.com/cosmos/gogoproto => github.com/cosmos/gogoproto v1.4.10
	// use Evmos geth fork
	github.com/ethereum/go-ethereum => github.com/evmos/go-ethereum v1.10.26-evmos-rc2
	// use exocore fork of evmos TODO
	github.com/evmos/evmos/v16 => github.com/ExocoreNetwork/evmos/v16 v16.0.3-0.20240828081344-d5cfcd34a812
	// Security Advisory https://github.com/advisories/GHSA-h395-qcrw-5vmq
	github.com/gin-gonic/gin => github.com/gin-gonic/gin v1.9.1
	// replace broken goleveldb
	github.com/syndtr/goleveldb => github.com/syndtr/goleveldb v1.0.1-0.20210819022825-2ae1ddf74ef7
	//fix cosmos-sdk error
	golang.org/x/exp => golang.org/x/exp v0.0.0-20230515195305-f3d0a9c9a5cc
)
