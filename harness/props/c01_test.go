package props

import (
	"testing"

	"exoverif/sim"

	"pgregory.net/rapid"
)

// worldConfig draws a valid world: operators, validators, stakes, decimals, prices, dogfood
// parameters. Construction, not rejection: every drawn configuration is valid.
func worldConfig(t *rapid.T) sim.Config {
	cfg := sim.DefaultConfig(uint64(rapid.IntRange(1, 1<<30).Draw(t, "seed")))
	nOps := rapid.IntRange(2, 5).Draw(t, "nOps")
	cfg.NumOperators = nOps
	cfg.NumValidators = rapid.IntRange(1, nOps).Draw(t, "nVals")
	cfg.NumStakers = rapid.IntRange(2, 4).Draw(t, "nStakers")
	cfg.SelfStake = make([]int64, nOps)
	for i := range cfg.SelfStake {
		cfg.SelfStake[i] = int64(rapid.IntRange(1, 500).Draw(t, "stake"))
		if i >= cfg.NumValidators && rapid.IntRange(0, 2).Draw(t, "nostake?") == 0 {
			cfg.SelfStake[i] = 0
		}
	}
	dec := []uint32{0, 6, 8, 18}
	cfg.Assets[0].Decimals = dec[rapid.IntRange(0, 3).Draw(t, "dec0")]
	cfg.Assets[1].Decimals = dec[rapid.IntRange(0, 3).Draw(t, "dec1")]
	cfg.Assets[2].Decimals = []uint32{0, 18}[rapid.IntRange(0, 1).Draw(t, "decNST")]
	prices := []struct {
		p  string
		pd int32
	}{{"1", 0}, {"25", 1}, {"3000", 0}, {"99999999", 8}, {"1", 6}, {"123456", 3}}
	for i := 1; i < 3; i++ {
		pr := prices[rapid.IntRange(0, len(prices)-1).Draw(t, "price")]
		cfg.Assets[i].Price, cfg.Assets[i].PriceDecimal = pr.p, pr.pd
	}
	cfg.MaxValidators = uint32(rapid.IntRange(1, 6).Draw(t, "maxVals"))
	if int(cfg.MaxValidators) < cfg.NumValidators {
		cfg.MaxValidators = uint32(cfg.NumValidators)
	}
	cfg.EpochsUntilUnbonded = uint32(rapid.IntRange(1, 3).Draw(t, "unbond"))
	cfg.HistoricalEntries = []uint32{0, 0, 1, 3}[uniform(t, 4, "historical")] // 0 = the module's default
	cfg.MinSelfDelegation = int64(rapid.SampledFrom([]int{0, 0, 1, 50}).Draw(t, "minSelf"))
	for i := 0; i < cfg.NumValidators; i++ {
		if cfg.SelfStake[i] < cfg.MinSelfDelegation || cfg.SelfStake[i] < 1 {
			cfg.SelfStake[i] = cfg.MinSelfDelegation + 1
		}
	}
	return cfg
}

// shortDrain lets pending undelegations complete (10 blocks) and an epoch pass.
func shortDrain(m *Machine) []Action {
	out := []Action{}
	for i := 0; i < 12; i++ {
		out = append(out, Action{Kind: "nextBlock", Dt: 13})
	}
	return out
}

func init() {
	registerWorldProp(&WorldProp{
		ID: "C01",
		Rule: "stateful rapid histories of the restaking world machine over the real app (deposit/withdraw/delegate/undelegate/associate/opt/slash/NST/native/blocks); " +
			"non-trivial = history with a successful delegation, a successful undelegation, a completed undelegation and a value-removing slash or NST decrease; distinct = hash of the (kind, outcome) sequence",
		Gen:        GenOpts{HostilePct: 12, ExtremePct: 3, MaxDt: 40, Anchor: true, Focus: true, Tempos: []int{4, 12, 40}},
		MinSteps:   15,
		MaxSteps:   60,
		Config:     worldConfig,
		Invariants: func() []Invariant { return []Invariant{&ledgerInv{}} },
		Tail:       shortDrain,
		NonTrivial: func(m *Machine, invs []Invariant) (bool, []string) {
			return invs[0].(*ledgerInv).NonTrivial(), nil
		},
	})
}

func TestC01(t *testing.T) { runWorldProp(t, "C01") }

// the same oracle over histories concentrated on the native-restaking (NST) ledger: deposits,
// delegations, several pending undelegations and balance adjustments of one asset
func init() {
	w := map[string]int{"nextBlock": 10, "depositNST": 8, "withdrawNST": 3, "delegate": 12, "undelegate": 14, "nstUpdate": 14, "slash": 2, "associate": 1, "dissociate": 1}
	base := *worldProps["C01"]
	base.Name = "C01NST"
	base.Gen = GenOpts{Weights: w, HostilePct: 4, ExtremePct: 0, Anchor: true, Tempos: []int{2, 6, 20}, ForceFocus: 3, FocusPct: 92, CapBits: 90}
	base.MinSteps, base.MaxSteps = 20, 60
	registerWorldProp(&base)
}

func TestC01NST(t *testing.T) { runWorldProp(t, "C01NST") }
