package props

import (
	"encoding/json"
	"exoverif/sim"
	"math/big"
	"os"
	"testing"

	sdkmath "cosmossdk.io/math"
	delegationkeeper "github.com/ExocoreNetwork/exocore/x/delegation/keeper"
	"pgregory.net/rapid"
)

func init() {
	w := defaultWeights()
	// share-moving operations dominate; slashes and NST decreases create exchange rates != 1
	w["delegate"], w["undelegate"], w["slash"], w["nstUpdate"] = 22, 18, 8, 5
	w["optIn"], w["optOut"], w["setKey"], w["jail"], w["unjail"] = 1, 1, 1, 0, 0
	w["associate"], w["dissociate"] = 5, 4
	registerWorldProp(&WorldProp{
		ID: "C02",
		Rule: "rapid histories of the world machine weighted to share-moving operations (3+ co-delegators, slashes to reach rates != 1), plus function-level generation of the share<->token conversions; " +
			"non-trivial = a delegate/undelegate touched a pool that has other delegators and an exchange rate != 1; distinct = hash of the (kind, outcome) sequence",
		Gen:      GenOpts{Weights: w, HostilePct: 5, ExtremePct: 0, MaxDt: 30, Anchor: true, Focus: true, Tempos: []int{4, 12, 40}, CapBits: 90},
		MinSteps: 20,
		MaxSteps: 70,
		Config: func(t *rapid.T) sim.Config {
			cfg := worldConfig(t)
			// a third client chain whose LayerZero id, written in hexadecimal, is a prefix of the
			// other two chains' ids: staker ids of the same account on different chains then share
			// a textual prefix
			cfg.ExtraChains = []uint64{6}
			return cfg
		},
		Invariants: func() []Invariant { return []Invariant{&sharesInv{}} },
		Tail:       shortDrain,
		NonTrivial: func(m *Machine, invs []Invariant) (bool, []string) {
			s := invs[0].(*sharesInv)
			m.Labels["fairness-checks"] += s.fairnessChecks
			m.Labels["round-trips-judged"] += s.roundTrips
			return s.NonTrivial(), nil
		},
	})
}

func TestC02(t *testing.T) { runWorldProp(t, "C02") }

// ---- function level: SharesFromTokens / TokensFromShares against exact integer arithmetic.

func drawBig(t *rapid.T, maxBits int, label string) *big.Int {
	bits := rapid.IntRange(0, maxBits).Draw(t, label+"-bits")
	if bits == 0 {
		return big.NewInt(0)
	}
	bs := rapid.SliceOfN(rapid.Byte(), (bits+7)/8, (bits+7)/8).Draw(t, label+"-bytes")
	v := new(big.Int).SetBytes(bs)
	v.SetBit(v, bits-1, 1)
	mask := new(big.Int).Sub(new(big.Int).Lsh(big.NewInt(1), uint(bits)), big.NewInt(1))
	return v.And(v, mask)
}

func decFromRaw(raw *big.Int) sdkmath.LegacyDec {
	return sdkmath.LegacyNewDecFromBigIntWithPrec(raw, 18)
}

// shareFnCase is one function-level case (all values as decimal strings of raw integers).
type shareFnCase struct {
	S, A, Sh, X string
	Down        int
}

// checkShareFns compares TokensFromShares / SharesFromTokens with exact integer arithmetic.
// skipped=true means the inputs are beyond the number type's documented range.
func checkShareFns(c shareFnCase) (v *Violation, skipped bool) {
	one := pow10(18)
	S, A, s, x := amt(c.S), amt(c.A), amt(c.Sh), amt(c.X)
	// input-domain frontier: the 18-decimal type holds at most 315 bits; products beyond that
	// panic by design of the number type (a fact about the domain, not a violation)
	if new(big.Int).Mul(s, A).BitLen() > 300 || new(big.Int).Mul(S, x).BitLen() > 300 ||
		(S.Sign() > 0 && new(big.Int).Quo(new(big.Int).Mul(new(big.Int).Mul(s, A), one), S).BitLen() > 300) {
		return nil, true
	}
	Sd, sd, Ai, xi := decFromRaw(S), decFromRaw(s), sdkmath.NewIntFromBigInt(A), sdkmath.NewIntFromBigInt(x)
	got, err := delegationkeeper.TokensFromShares(sd, Sd, Ai)
	switch {
	case s.Cmp(S) > 0:
		if err == nil {
			return violation("C02.F1.tokens-error", "share %s > total %s accepted", s, S), false
		}
	case S.Sign() == 0 && A.Sign() == 0:
		if err != nil || !got.IsZero() {
			return violation("C02.F1.tokens-zero", "(0,0,0) -> %v %v", got, err), false
		}
	case S.Sign() == 0:
		if err == nil {
			return violation("C02.F1.tokens-error", "zero total share with amount %s accepted", A), false
		}
	default:
		if err != nil {
			return violation("C02.F1.tokens-error", "unexpected error %v for s=%s S=%s A=%s", err, s, S, A), false
		}
		num := new(big.Int).Mul(s, A)
		fl, rem := new(big.Int).QuoRem(num, S, new(big.Int))
		g := got.BigInt()
		if g.Cmp(fl) != 0 {
			// floor+1 is only admissible when the fractional part is within 1e-18 of 1
			up := new(big.Int).Add(fl, big.NewInt(1))
			lim := new(big.Int).Mul(new(big.Int).Sub(S, rem), one)
			if g.Cmp(up) != 0 || lim.Cmp(S) > 0 {
				return violation("C02.F2.tokens-value", "TokensFromShares(%s,%s,%s)=%s, exact floor %s", s, S, A, g, fl), false
			}
		}
		if s.Cmp(S) == 0 && g.Cmp(A) != 0 {
			return violation("C02.F3.tokens-all", "all shares give %s of pool %s", g, A), false
		}
		if s.Sign() > 0 && c.Down > 0 {
			s2 := new(big.Int).Sub(s, big.NewInt(int64(c.Down)))
			if s2.Sign() >= 0 {
				g2, err2 := delegationkeeper.TokensFromShares(decFromRaw(s2), Sd, Ai)
				if err2 != nil || g2.BigInt().Cmp(g) > 0 {
					return violation("C02.F4.tokens-monotone", "f(%s)=%v > f(%s)=%s (err %v)", s2, g2, s, g, err2), false
				}
			}
		}
	}
	sh, err := delegationkeeper.SharesFromTokens(Sd, xi, Ai)
	switch {
	case A.Sign() == 0 && S.Sign() == 0:
		if err != nil || !sh.IsZero() {
			return violation("C02.F5.shares-zero", "%v %v", sh, err), false
		}
	case A.Sign() == 0:
		if err == nil {
			return violation("C02.F5.shares-error", "zero pool amount with total share %s accepted", S), false
		}
	default:
		if err != nil {
			return violation("C02.F5.shares-error", "%v", err), false
		}
		want := new(big.Int).Mul(S, x)
		want.Quo(want, A)
		if sh.BigInt().Cmp(want) != 0 {
			return violation("C02.F6.shares-value", "SharesFromTokens(%s,%s,%s)=%s raw, exact floor %s", S, x, A, sh.BigInt(), want), false
		}
	}
	return nil, false
}

func TestC02Fn(t *testing.T) {
	const prop = "C02"
	defer finish(t, prop)
	st := getStats(prop)
	one := pow10(18)
	if f := os.Getenv("VERIF_REPLAY"); f != "" {
		var cf CaseFile
		b, _ := os.ReadFile(f)
		var c shareFnCase
		if json.Unmarshal(b, &cf) != nil || json.Unmarshal(cf.Extra, &c) != nil {
			t.Fatalf("replay: cannot parse %s", f)
		}
		lastCase = &cf
		if v, _ := checkShareFns(c); v != nil {
			t.Fatalf("VIOLATION %s", v.Error())
		}
		return
	}
	rapid.Check(t, func(rt *rapid.T) {
		S := drawBig(rt, 170, "S")
		var A *big.Int
		switch uniform(rt, 5, "Aclass") {
		case 0:
			A = big.NewInt(0)
		case 1: // rate 1
			A = new(big.Int).Div(S, one)
		case 2: // slashed: anywhere between 1 unit and the share total
			top := new(big.Int).Div(S, one)
			if top.Sign() == 0 {
				A = big.NewInt(1)
			} else {
				A = new(big.Int).Mod(drawBig(rt, 255, "Araw"), top)
				A.Add(A, big.NewInt(1))
			}
		default:
			A = drawBig(rt, 60, "A")
		}
		var s *big.Int
		switch uniform(rt, 6, "sclass") {
		case 0:
			s = new(big.Int).Set(S)
		case 1:
			s = big.NewInt(0)
		case 2:
			s = new(big.Int).Add(S, big.NewInt(int64(rapid.IntRange(1, 5).Draw(rt, "over"))))
		default:
			if S.Sign() > 0 {
				s = new(big.Int).Mod(drawBig(rt, 170, "sraw"), new(big.Int).Add(S, big.NewInt(1)))
			} else {
				s = big.NewInt(0)
			}
		}
		x := drawBig(rt, 64, "x")
		c := shareFnCase{S: S.String(), A: A.String(), Sh: s.String(), X: x.String(), Down: rapid.IntRange(1, 1000).Draw(rt, "down")}
		extra, _ := json.Marshal(c)
		cf := &CaseFile{Property: prop, Test: "TestC02Fn", Extra: extra}
		lastCase = cf
		nontrivial := S.Sign() > 0 && A.Sign() > 0 && s.Sign() > 0 && s.Cmp(S) < 0
		v, skipped := checkShareFns(c)
		if skipped {
			statsMu.Lock()
			st.Labels["fn-skipped-overflow-frontier"]++
			statsMu.Unlock()
			return
		}
		if v != nil {
			cf.Violation = v.Error()
			rt.Fatalf("VIOLATION %s", v.Error())
		}
		statsMu.Lock()
		st.Evaluations++
		st.Labels["fn-cases"]++
		if nontrivial {
			st.Labels["fn-nontrivial"]++
			if len(st.NonTrivial) < 20000 {
				st.NonTrivial[shortHash(string(extra))] = true
			}
			if st.Labels["fn-samples"] < 2 {
				st.Labels["fn-samples"]++
				st.Samples = append(st.Samples, extra)
			}
		}
		statsMu.Unlock()
	})
}
