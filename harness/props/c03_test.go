package props

import "testing"

func init() {
	w := defaultWeights()
	w["undelegate"], w["nativeUndelegate"], w["nativeDelegate"], w["delegate"] = 22, 10, 8, 14
	w["nextBlock"] = 22
	w["extHold"] = 7
	w["optOut"], w["optIn"], w["setKey"], w["jail"], w["unjail"], w["slash"] = 3, 3, 3, 1, 1, 4
	registerWorldProp(&WorldProp{
		ID: "C03",
		Rule: "rapid histories of the world machine weighted to concurrent undelegations (precompile path with per-chain LayerZero nonces, native path with multi-operator messages) over operators in every lifecycle state, with block/epoch ends; " +
			"non-trivial = at least 2 overlapping pending records, at least one hold observed and at least one release; distinct = hash of the (kind, outcome) sequence",
		Gen:        GenOpts{Weights: w, HostilePct: 6, ExtremePct: 0, MaxDt: 35, Anchor: true, Focus: true, Tempos: []int{2, 5, 12, 35}, CapBits: 90, ClampBits: 40},
		MinSteps:   25,
		MaxSteps:   80,
		Config:     worldConfig,
		Invariants: func() []Invariant { return []Invariant{&exitInv{}} },
		Tail: func(m *Machine) []Action {
			out := []Action{}
			for i := 0; i < 14; i++ {
				out = append(out, Action{Kind: "nextBlock", Dt: 31})
			}
			return out
		},
		NonTrivial: func(m *Machine, invs []Invariant) (bool, []string) {
			e := invs[0].(*exitInv)
			m.Labels["records-accepted"] += e.accepted
			m.Labels["records-released"] += e.releases
			m.Labels["records-postponed-by-hold"] += e.postponed
			m.Labels["holds-placed-by-a-second-holder"] += m.ExtPlaced
			m.Labels["holds-released-by-a-second-holder"] += m.ExtReleased
			m.Labels["collision-prone-states"] += e.collisionProne
			return e.NonTrivial(), nil
		},
	})
}

func TestC03(t *testing.T) { runWorldProp(t, "C03") }

func init() {
	w := map[string]int{"nextBlock": 12, "depositNST": 8, "withdrawNST": 2, "delegate": 12, "undelegate": 16, "nstUpdate": 12, "slash": 2, "optOut": 1, "setKey": 1}
	base := *worldProps["C03"]
	base.Name = "C03NST"
	base.Gen = GenOpts{Weights: w, HostilePct: 4, ExtremePct: 0, Anchor: true, Tempos: []int{2, 6, 20}, ForceFocus: 3, FocusPct: 92, CapBits: 40, ClampBits: 40}
	base.MinSteps, base.MaxSteps = 20, 60
	registerWorldProp(&base)
}

func TestC03NST(t *testing.T) { runWorldProp(t, "C03NST") }
