package props

import "testing"

func init() {
	w := map[string]int{
		"nextBlock": 18, "depositLST": 8, "delegate": 14, "undelegate": 16, "slash": 16, "depositNST": 3, "nstUpdate": 2,
		"nativeDelegate": 2, "nativeUndelegate": 2, "optIn": 2, "optOut": 1, "setKey": 2, "associate": 2,
	}
	registerWorldProp(&WorldProp{
		ID: "C04",
		Rule: "rapid histories of the world machine weighted to slashes (any consensus key of the pool, infraction heights 0..30 blocks back, powers 1..10^6, factors 0..1 with boundary values, repeated slash ids) over operators with several assets, delegators and pending undelegations started before/at/after the infraction height; " +
			"non-trivial = a slash with non-zero proportion hit an operator that had both an at-risk and a not-at-risk pending undelegation; distinct = hash of the (kind, outcome) sequence",
		Gen:        GenOpts{Weights: w, HostilePct: 2, ExtremePct: 0, Anchor: true, Tempos: []int{2, 6, 15}, CapBits: 50, ClampBits: 40, Focus: true},
		MinSteps:   25,
		MaxSteps:   80,
		Config:     worldConfig,
		Invariants: func() []Invariant { return []Invariant{&slashInv{}} },
		NonTrivial: func(m *Machine, invs []Invariant) (bool, []string) {
			s := invs[0].(*slashInv)
			m.Labels["slashes-nonzero"] += s.nonZero
			m.Labels["slashes-with-at-risk-record"] += s.atRisk
			m.Labels["slashes-with-safe-record"] += s.notAtRisk
			m.Labels["slash-replays"] += s.replays
			m.Labels["slashes-capped-at-100pct"] += s.shrunk
			return s.NonTrivial(), nil
		},
	})
}

func TestC04(t *testing.T) { runWorldProp(t, "C04") }
