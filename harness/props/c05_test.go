package props

import (
	"encoding/json"
	"math/big"
	"os"
	"testing"
	"time"

	sdkmath "cosmossdk.io/math"
	"exoverif/sim"

	epochstypes "github.com/ExocoreNetwork/exocore/x/epochs/types"
	operatorkeeper "github.com/ExocoreNetwork/exocore/x/operator/keeper"
	"pgregory.net/rapid"
)

// powerConfig: generated decimals/prices/minimum self delegation (worldConfig), live price
// feeders so that prices move, AVS accounts and fast epoch identifiers.
func powerConfig(t *rapid.T) sim.Config {
	cfg := worldConfig(t)
	cfg.NumAVS = rapid.IntRange(1, 3).Draw(t, "nAVS")
	cfg.ExtraEpochs = []epochstypes.EpochInfo{epochstypes.NewGenesisEpochInfo("fast", 20*time.Second)}
	if rapid.IntRange(0, 1).Draw(t, "second-fast?") == 0 {
		cfg.ExtraEpochs = append(cfg.ExtraEpochs, epochstypes.NewGenesisEpochInfo("brisk", 45*time.Second))
	}
	cfg.DogfoodEpoch = []string{epochstypes.MinuteEpochID, "fast"}[rapid.IntRange(0, 1).Draw(t, "dogfoodEpoch")]
	nAssets := rapid.IntRange(1, 3).Draw(t, "dogfoodAssets")
	cfg.DogfoodAssets = []int{0, 1, 2}[:nAssets]
	cfg.OracleMaxNonce = int32(rapid.IntRange(1, 3).Draw(t, "maxNonce"))
	mn := int(cfg.OracleMaxNonce)
	cfg.Feeders = nil
	for i := 0; i < 1+rapid.IntRange(0, 1).Draw(t, "nFeeders"); i++ {
		cfg.Feeders = append(cfg.Feeders, sim.FeederCfg{Asset: i, StartBaseBlock: uint64(rapid.IntRange(1, 4).Draw(t, "startBase")), Interval: uint64(rapid.IntRange(2*mn, 2*mn+3).Draw(t, "interval"))})
	}
	return cfg
}

func powerWeights() map[string]int {
	return map[string]int{
		"nextBlock": 30, "price": 24, "delegate": 9, "undelegate": 6, "depositLST": 5, "associate": 4, "dissociate": 1, "slash": 2,
		"avsRegister": 5, "avsUpdate": 2, "avsOptIn": 7, "avsOptOut": 2, "avsDeregister": 1, "optIn": 2, "optOut": 1, "depositNST": 2, "nstUpdate": 1,
	}
}

func init() {
	registerWorldProp(&WorldProp{
		ID: "C05",
		Rule: "rapid histories of delegations, undelegations, associations, slashes, NST updates, price rounds, AVS registration/update and opt-ins/opt-outs over worlds with generated asset decimals (0..18), price decimals, AVS asset lists, " +
			"minimum self delegations and epoch identifiers; at every epoch end of an AVS the recorded operator and AVS values are compared with exact integer arithmetic over the committed pools and latest prices; " +
			"non-trivial = a history with at least 4 compared operator records, among them an AVS with several assets and an operator below the minimum self delegation or a freshly registered AVS (epoch preceding its starting epoch); distinct = hash of the (kind, outcome) sequence",
		Gen:        GenOpts{Weights: powerWeights(), HostilePct: 3, ExtremePct: 0, Anchor: true, Tempos: []int{7, 12, 21}, CapBits: 40, ClampBits: 40},
		MinSteps:   30,
		MaxSteps:   110,
		Config:     powerConfig,
		Invariants: func() []Invariant { return []Invariant{newPowerInv(), &oracleInv{}} },
		NonTrivial: func(m *Machine, invs []Invariant) (bool, []string) {
			p := invs[0].(*powerInv)
			m.Labels["avs-epoch-ends-checked"] += p.Checks
			m.Labels["operator-records-compared"] += p.Operators
			m.Labels["below-minimum-self-delegation"] += p.BelowMin
			m.Labels["multi-asset-avs"] += p.MultiAsset
			m.Labels["epoch-preceding-starting-epoch"] += p.FreshAVS
			m.Labels["not-opted-in-checked"] += p.OptedOutSeen
			return p.Operators >= 4 && p.MultiAsset > 0 && (p.BelowMin > 0 || p.FreshAVS > 0), nil
		},
	})
}

func TestC05(t *testing.T) { runWorldProp(t, "C05") }

// TestC05Fn: the pricing function itself, against exact integer arithmetic, plus the
// metamorphic relations the property states (non-negative, monotone in amount and price).
func TestC05Fn(t *testing.T) {
	const prop = "C05"
	defer finish(t, prop)
	st := getStats(prop)
	type fnCase struct {
		Amount, Price, Amount2, Price2 string
		AssetDec                       uint32
		PriceDec                       uint8
	}
	check := func(c fnCase) *Violation {
		a, _ := new(big.Int).SetString(c.Amount, 10)
		p, _ := new(big.Int).SetString(c.Price, 10)
		a2, _ := new(big.Int).SetString(c.Amount2, 10)
		p2, _ := new(big.Int).SetString(c.Price2, 10)
		got := dec18(operatorkeeper.CalculateUSDValue(sdkmath.NewIntFromBigInt(a), sdkmath.NewIntFromBigInt(p), c.AssetDec, c.PriceDec))
		want := value18(a, p, int(c.AssetDec), int(c.PriceDec))
		if got == nil || got.Cmp(want) != 0 {
			return violation("C05.I6.formula", "CalculateUSDValue(%s, %s, %d, %d) = %s, exact %s (x10^-18)", a, p, c.AssetDec, c.PriceDec, got, want)
		}
		if got.Sign() < 0 {
			return violation("C05.I5.negative", "CalculateUSDValue(%s, %s, %d, %d) = %s", a, p, c.AssetDec, c.PriceDec, got)
		}
		more := dec18(operatorkeeper.CalculateUSDValue(sdkmath.NewIntFromBigInt(a2), sdkmath.NewIntFromBigInt(p2), c.AssetDec, c.PriceDec))
		if more.Cmp(got) < 0 {
			return violation("C05.I7.monotone", "value(%s, %s) = %s > value(%s, %s) = %s although neither amount nor price decreased", a, p, got, a2, p2, more)
		}
		return nil
	}
	if f := os.Getenv("VERIF_REPLAY"); f != "" {
		var cf CaseFile
		b, _ := os.ReadFile(f)
		var c fnCase
		if json.Unmarshal(b, &cf) != nil || json.Unmarshal(cf.Extra, &c) != nil {
			t.Fatalf("replay: cannot parse %s", f)
		}
		lastCase = &cf
		if v := check(c); v != nil {
			t.Fatalf("VIOLATION %s", v.Error())
		}
		return
	}
	rapid.Check(t, func(rt *rapid.T) {
		amt := func(l string) *big.Int {
			m := int64(rapid.IntRange(0, 1_000_000).Draw(rt, l+"-mant"))
			e := int64(rapid.IntRange(0, 30).Draw(rt, l+"-exp"))
			return new(big.Int).Mul(big.NewInt(m), new(big.Int).Exp(big.NewInt(10), big.NewInt(e), nil))
		}
		a, p := amt("amount"), new(big.Int).Add(amt("price"), big.NewInt(1))
		c := fnCase{Amount: a.String(), Price: p.String(), AssetDec: uint32(rapid.IntRange(0, 18).Draw(rt, "assetDec")), PriceDec: uint8(rapid.IntRange(0, 18).Draw(rt, "priceDec"))}
		c.Amount2 = new(big.Int).Add(a, amt("more-amount")).String()
		c.Price2 = new(big.Int).Add(p, amt("more-price")).String()
		extra, _ := json.Marshal(c)
		cf := &CaseFile{Property: prop, Test: "TestC05Fn", Extra: extra}
		lastCase = cf
		if v := check(c); v != nil {
			cf.Violation = v.Error()
			rt.Fatalf("VIOLATION %s", v.Error())
		}
		statsMu.Lock()
		st.Evaluations++
		if a.Sign() > 0 && c.AssetDec+uint32(c.PriceDec) > 0 {
			st.Labels["fn-cases-with-division"]++
			st.NonTrivial["fn:"+shortHash(c.Amount+"/"+c.Price)] = true
		}
		statsMu.Unlock()
	})
}
