package props

import (
	"github.com/ExocoreNetwork/exocore/utils"
	"testing"

	"exoverif/sim"

	"pgregory.net/rapid"
)

// valsetConfig favours many operators with equal or near-equal stakes and a small maximum.
func valsetConfig(t *rapid.T) sim.Config {
	cfg := worldConfig(t)
	n := rapid.IntRange(3, 6).Draw(t, "nOpsV")
	cfg.NumOperators = n
	cfg.NumValidators = rapid.IntRange(1, n).Draw(t, "nValsV")
	cfg.SelfStake = make([]int64, n)
	base := int64(rapid.IntRange(1, 60).Draw(t, "base"))
	for i := range cfg.SelfStake {
		switch uniform(t, 4, "stakeclass") {
		case 0:
			cfg.SelfStake[i] = base // ties
		case 1:
			cfg.SelfStake[i] = base + int64(uniform(t, 3, "near"))
		default:
			cfg.SelfStake[i] = int64(rapid.IntRange(1, 200).Draw(t, "stakeV"))
		}
	}
	cfg.MaxValidators = uint32(rapid.IntRange(1, n).Draw(t, "maxV"))
	if int(cfg.MaxValidators) < cfg.NumValidators {
		cfg.NumValidators = int(cfg.MaxValidators)
	}
	cfg.MinSelfDelegation = int64(rapid.SampledFrom([]int{0, 0, 1, 20}).Draw(t, "minSelfV"))
	for i := 0; i < cfg.NumValidators; i++ {
		if cfg.SelfStake[i] < cfg.MinSelfDelegation || cfg.SelfStake[i] < 1 {
			cfg.SelfStake[i] = cfg.MinSelfDelegation + 1
		}
	}
	cfg.Assets[0].Decimals = []uint32{0, 6}[uniform(t, 2, "dec0V")]
	if uniform(t, 2, "testnetV") == 0 {
		// on a testnet chain id anybody can change the dogfood parameters: the maximum size of the
		// validator set and the eligibility threshold then move in the middle of a history
		cfg.ChainID = utils.TestnetChainID + "-1"
	}
	// a short x/slashing window: validators missing from the commits are slashed and jailed
	// through the real downtime path and must leave the set at the next epoch end
	cfg.Slashing = &sim.SlashingCfg{Window: int64(2 + uniform(t, 5, "windowV")), MinSigned: []string{"0.5", "1", "0.25"}[uniform(t, 3, "minSignedV")],
		JailSeconds: int64([]int{1, 30, 600}[uniform(t, 3, "jailV")]), FractionDowntime: []string{"0", "0.01", "0.5"}[uniform(t, 3, "fractionV")]}
	return cfg
}

func init() {
	w := map[string]int{
		"nextBlock": 26, "depositLST": 8, "delegate": 14, "undelegate": 10, "optOut": 5, "optIn": 8, "setKey": 6,
		"slash": 3, "jail": 2, "unjail": 1, "msgUnjail": 4, "associate": 2, "dissociate": 2, "nativeDelegate": 2, "setValsetParams": 4,
	}
	registerWorldProp(&WorldProp{
		ID: "C06",
		Rule: "rapid histories over consecutive dogfood epochs with many operators, tied and sub-unit powers, a small validator maximum, key replacements, opt-ins/outs and jailing; the eligible top set is recomputed independently at every epoch-closing block and compared with previous set + returned updates (applied with CometBFT's own ValidatorSet code); " +
			"non-trivial = an update list with an addition, a removal and a power change, or a power tie exactly at the cut; distinct = hash of the (kind, outcome) sequence",
		Gen:        GenOpts{Weights: w, HostilePct: 2, ExtremePct: 0, Anchor: true, Tempos: []int{15, 40, 70}, CapBits: 40, ClampBits: 40, DowntimePct: 18},
		MinSteps:   30,
		MaxSteps:   90,
		Config:     valsetConfig,
		Invariants: func() []Invariant { return []Invariant{&valsetInv{}} },
		Tail: func(m *Machine) []Action {
			return []Action{{Kind: "nextBlock", Dt: 61}, {Kind: "nextBlock", Dt: 61}, {Kind: "nextBlock", Dt: 61}}
		},
		NonTrivial: func(m *Machine, invs []Invariant) (bool, []string) {
			v := invs[0].(*valsetInv)
			m.Labels["epoch-ends-judged"] += v.epochEndsJudged
			if v.sawTieAtCut {
				m.Labels["tie-at-cut"]++
			}
			if v.sawOverMax {
				m.Labels["more-eligible-than-max"]++
			}
			return v.NonTrivial(), nil
		},
	})
	registerWorldProp(&WorldProp{
		ID: "C07",
		Rule: "rapid histories of opt-in with key, key replacement (keys drawn from a small pool: fresh, own earlier, other operators' current/previous/removed keys), opt-out, opt-in again, jail/unjail, slash by old and new consensus address, over dogfood epochs; registry invariants after every step plus the queue model for maturing keys; " +
			"non-trivial = at least 2 operators with keys, a replacement of an active key, and an epoch end after it; distinct = hash of the (kind, outcome) sequence",
		Gen: GenOpts{Weights: map[string]int{
			"nextBlock": 26, "optIn": 12, "setKey": 16, "optOut": 8, "jail": 3, "unjail": 3, "slash": 4, "delegate": 6, "depositLST": 4, "undelegate": 5,
		}, HostilePct: 2, ExtremePct: 0, Anchor: true, Tempos: []int{15, 40, 70}, CapBits: 40, ClampBits: 40},
		MinSteps: 30,
		MaxSteps: 90,
		Config:   valsetConfig,
		Invariants: func() []Invariant {
			q := &queuesInv{}
			return []Invariant{q, &registryInv{q: q}}
		},
		Tail: func(m *Machine) []Action {
			out := []Action{}
			for i := 0; i < 5; i++ {
				out = append(out, Action{Kind: "nextBlock", Dt: 61})
			}
			return out
		},
		NonTrivial: func(m *Machine, invs []Invariant) (bool, []string) {
			return invs[1].(*registryInv).NonTrivial()
		},
	})
}

func TestC06(t *testing.T) { runWorldProp(t, "C06") }
func TestC07(t *testing.T) { runWorldProp(t, "C07") }
