package props

import (
	"crypto/sha256"
	"encoding/hex"
	"encoding/json"
	"fmt"
	"os"
	"os/exec"
	"strings"
	"testing"
	"time"

	"exoverif/sim"

	epochstypes "github.com/ExocoreNetwork/exocore/x/epochs/types"

	"pgregory.net/rapid"
)

// C08: the same genesis and the same blocks give byte-identical results on every execution.

func determinismConfig(t *rapid.T) sim.Config {
	cfg := oracleConfig(t)
	// a richer restaking world on top of the oracle one
	cfg.NumStakers = rapid.IntRange(2, 4).Draw(t, "nStakersD")
	if cfg.NumOperators < 3 {
		cfg.NumOperators = 3
		cfg.SelfStake = append(cfg.SelfStake, 7, 5)[:3]
		cfg.MaxValidators = 3
	}
	rates := []string{"0", "0.1", "0.5", "0.123456789"}
	cfg.Commission = nil
	for i := 0; i < cfg.NumOperators; i++ {
		cfg.Commission = append(cfg.Commission, rates[uniform(t, len(rates), "rateD")])
	}
	if len(cfg.Feeders) < 2 {
		mn := int(cfg.OracleMaxNonce)
		cfg.Feeders = append(cfg.Feeders, sim.FeederCfg{Asset: 1, StartBaseBlock: cfg.Feeders[0].StartBaseBlock, Interval: uint64(2 * mn)})
	}
	// same interval and start for both feeders half of the time: they seal in the same block
	if uniform(t, 2, "sameSchedule") == 0 {
		cfg.Feeders[1].StartBaseBlock = cfg.Feeders[0].StartBaseBlock
		cfg.Feeders[1].Interval = cfg.Feeders[0].Interval
		cfg.Feeders[1].EndBlock, cfg.Feeders[1].ResumeAfter = 0, 0
	}
	return cfg
}

func determinismWeights() map[string]int {
	return map[string]int{
		"price": 30, "nextBlock": 24, "depositLST": 8, "withdrawLST": 2, "delegate": 10, "undelegate": 6, "associate": 2, "dissociate": 1,
		"depositNST": 2, "nativeDelegate": 3, "nativeUndelegate": 2, "optIn": 4, "optOut": 4, "setKey": 3, "payFee": 5, "evidence": 2,
	}
}

func transcriptHash(blocks []sim.BlockRecord) string {
	h := sha256.New()
	for _, b := range blocks {
		fmt.Fprintf(h, "%d|%x|", b.Height, b.AppHash)
		for _, tr := range b.TxResults {
			fmt.Fprintf(h, "%d,%x,%d,%d;", tr.Code, tr.Data, tr.GasWanted, tr.GasUsed)
		}
		for _, u := range b.ValUpdates {
			bz, _ := u.Marshal()
			fmt.Fprintf(h, "%x;", bz)
		}
		if b.ConsParams != nil {
			bz, _ := b.ConsParams.Marshal()
			fmt.Fprintf(h, "%x", bz)
		}
	}
	return hex.EncodeToString(h.Sum(nil))
}

type c08Child struct {
	Config sim.Config
	Blocks []sim.BlockRecord
}

// TestC08Child re-executes recorded blocks in a fresh process and prints the transcript hash.
func TestC08Child(t *testing.T) {
	f := os.Getenv("VERIF_C08_BLOCKS")
	if f == "" {
		t.Skip()
	}
	b, err := os.ReadFile(f)
	if err != nil {
		t.Fatal(err)
	}
	var in c08Child
	if err := json.Unmarshal(b, &in); err != nil {
		t.Fatal(err)
	}
	w, err := sim.BuildWorld(in.Config)
	if err != nil {
		t.Fatal(err)
	}
	c, err := sim.Replay(w, in.Blocks, nil)
	if err != nil {
		t.Fatal(err)
	}
	fmt.Printf("TRANSCRIPT %s %s\n", transcriptHash(c.Blocks), shortHash(sim.OracleMemDumpNoNonce()))
}

// c08Config / c08Weights: the determinism check additionally covers AVS traffic (task
// statistics are computed from a Go map in the epoch hook), raw precompile calls, downtime
// through x/slashing and MsgUnjail.
func c08Config(t *rapid.T) sim.Config {
	cfg := determinismConfig(t)
	cfg.NumAVS = uniform(t, 3, "nAVSD")
	cfg.ExtraEpochs = []epochstypes.EpochInfo{epochstypes.NewGenesisEpochInfo("fast", 20*time.Second)}
	if uniform(t, 2, "slashingD") == 0 {
		cfg.Slashing = &sim.SlashingCfg{Window: int64(2 + uniform(t, 5, "windowD")), MinSigned: "0.5", JailSeconds: 30, FractionDowntime: "0.01"}
	}
	return cfg
}

func c08Weights() map[string]int {
	w := determinismWeights()
	for k, v := range map[string]int{"avsRegister": 3, "avsOptIn": 4, "avsBLS": 3, "avsTask": 4, "avsResult": 8, "avsChallenge": 2, "avsUpdate": 1, "rawCall": 3, "msgUnjail": 2, "regToken": 2} {
		w[k] = v
	}
	return w
}

func init() {
	base := WorldProp{ID: "C08", Name: "C08"}
	base.Invariants = func() []Invariant { return nil }
	base.Config = c08Config
	base.Gen = GenOpts{Weights: c08Weights(), HostilePct: 6, ExtremePct: 0, Anchor: true, Tempos: []int{4, 15, 40}, CapBits: 40, ClampBits: 40, DowntimePct: 10, SimPct: 12}
	base.MinSteps, base.MaxSteps = 40, 120
	base.Tail = func(m *Machine) []Action {
		return []Action{{Kind: "nextBlock", Dt: 61}, {Kind: "nextBlock", Dt: 3}, {Kind: "nextBlock", Dt: 61}, {Kind: "nextBlock", Dt: 3}}
	}
	registerWorldProp(&base)
}

// c08MemBaseline, if set, is the first execution's oracle memory (see the replay path).
var c08MemBaseline string

func judgeReplicas(m *Machine, replicas int, restarts []int64, procs int) *Violation {
	cont := m.C.Blocks
	memCont := sim.OracleMemDumpNoNonce()
	if c08MemBaseline != "" {
		memCont = c08MemBaseline // (a replay judges the same history several times: the first execution's memory is taken once)
	}
	for k := 0; k < replicas; k++ {
		set := map[int64]bool{}
		if k == replicas-1 {
			for _, r := range restarts {
				set[r] = true
			}
		}
		c2, err := sim.Replay(m.W, cont, set)
		if err != nil {
			return violation("C08.I2.replica-halts", "replica %d (restarts %v): %v", k, restarts, err)
		}
		if d := sim.CompareTranscripts(cont, c2.Blocks); d != "" {
			return violation("C08.I1.diverged", "replica %d (restarted after %v) of the same blocks differs from the first execution: %s", k, keysOf(set), d)
		}
		if len(set) == 0 {
			if mem := sim.OracleMemDumpNoNonce(); mem != memCont {
				return violation("C08.I3.memory-diverged", "replica %d ends with a different in-memory oracle state than the first execution", k)
			}
		}
	}
	if procs > 0 {
		in, _ := json.Marshal(c08Child{Config: m.W.Cfg, Blocks: cont})
		f, err := os.CreateTemp("", "c08-*.json")
		if err != nil {
			return nil
		}
		defer os.Remove(f.Name())
		f.Write(in)
		f.Close()
		want := transcriptHash(cont)
		for k := 0; k < procs; k++ {
			cmd := exec.Command(os.Args[0], "-test.run", "^TestC08Child$", "-test.count=1")
			cmd.Env = append(os.Environ(), "VERIF_C08_BLOCKS="+f.Name())
			out, err := cmd.CombinedOutput()
			if err != nil {
				return violation("C08.I2.replica-halts", "process replica %d failed: %v %s", k, err, truncate(string(out), 300))
			}
			got := ""
			for _, line := range strings.Split(string(out), "\n") {
				if strings.HasPrefix(line, "TRANSCRIPT ") {
					got = strings.Fields(line)[1]
				}
			}
			if got != want {
				return violation("C08.I1.diverged", "a fresh OS process executing the same blocks produced transcript %s, the first execution %s", got, want)
			}
		}
	}
	return nil
}

func keysOf(s map[int64]bool) []int64 {
	var out []int64
	for k := range s {
		out = append(out, k)
	}
	return out
}

func TestC08(t *testing.T) { runC08(t, "C08", "TestC08") }

// the same judge over AVS-heavy histories (the generator of C20: registrations, opt-ins, BLS
// keys, tasks, both result phases, challenges, updates of task contracts, epoch-end statistics),
// with node-local simulations and restarts in between
func TestC08AVS(t *testing.T) { runC08(t, "C08AVS", "TestC08AVS") }

func init() {
	base := *worldProps["C08"]
	base.Name = "C08AVS"
	base.Config = func(t *rapid.T) sim.Config {
		cfg := c08Config(t)
		cfg.NumAVS = 2 + uniform(t, 2, "nAVSD2")
		return cfg
	}
	w := avsWeights()
	for k, v := range map[string]int{"price": 6, "payFee": 2, "optOut": 1, "setKey": 1, "undelegate": 3, "rawCall": 3} {
		w[k] = v
	}
	// (kinds that call keepers directly instead of going through a block are not part of the
	// recorded blocks and are left out)
	for _, k := range []string{"slash", "jail", "unjail", "nstUpdate"} {
		delete(w, k)
	}
	w["evidence"] = 2
	base.Gen = GenOpts{Weights: w, HostilePct: 6, ExtremePct: 0, Anchor: true, Tempos: []int{7, 21, 45}, CapBits: 40, ClampBits: 40, SimPct: 12, Dynamic: avsDynamic}
	registerWorldProp(&base)
}

func runC08(t *testing.T, propName, testName string) {
	const prop = "C08"
	p := worldProps[propName]
	defer finish(t, prop)
	st := getStats(prop)
	st.Rule = "rapid-generated block sequences over all custom modules (signed price transactions for 2 feeders, gateway precompile transactions, operator/delegation messages, fee-paying transfers, double-sign evidence, epoch ends, validator-set changes) are recorded as raw blocks and executed again from genesis in fresh application instances (every execution samples new Go map iteration orders), one of them with restarts, and in the thorough tier in separate OS processes; app hash, transaction code/data/gas, validator updates and consensus-parameter updates of every block and the final in-memory oracle state must be byte-identical; " +
		"non-trivial = sequence in which two feeders close a round in one block and a validator update list with at least 2 entries or a fee distribution over at least 2 stakers occurs; distinct = hash of the (kind, outcome) sequence"
	thorough := os.Getenv("VERIF_TIER") == "thorough"
	replicas, procs := 3, 0
	if thorough {
		replicas, procs = 5, 2
	}
	if f := os.Getenv("VERIF_REPLAY"); f != "" {
		var cf CaseFile
		var ex recordedExtra
		b, _ := os.ReadFile(f)
		if json.Unmarshal(b, &cf) != nil {
			t.Fatalf("replay: cannot parse %s", f)
		}
		_ = json.Unmarshal(cf.Extra, &ex)
		lastCase = &cf
		m := recordHistory(t, p, cf.Config, func(m *Machine, i int) (Action, bool) {
			if i >= len(cf.Actions) {
				return Action{}, false
			}
			return cf.Actions[i], true
		})
		if m == nil {
			t.Fatalf("replay: history cannot be recorded")
		}
		c08MemBaseline = sim.OracleMemDumpNoNonce()
		defer func() { c08MemBaseline = "" }()
		for i := 0; i < 3; i++ { // map orders differ per execution: try a few times
			if v := judgeReplicas(m, maxInt(ex.Replicas, 4), ex.Restarts, 0); v != nil {
				t.Fatalf("VIOLATION %s", v.Error())
			}
		}
		return
	}
	rapid.Check(t, func(rt *rapid.T) {
		cfg := p.Config(rt)
		n := rapid.IntRange(p.MinSteps, p.MaxSteps).Draw(rt, "steps")
		g := p.Gen
		if len(g.Tempos) > 0 {
			g.MaxDt = g.Tempos[uniform(rt, len(g.Tempos), "tempo")]
		}
		cf := &CaseFile{Property: prop, Config: cfg, Test: testName}
		lastCase = cf
		m := recordHistory(rt, p, cfg, func(m *Machine, i int) (Action, bool) {
			if i >= n {
				return Action{}, false
			}
			return m.Draw(rt, &g), true
		})
		if m == nil {
			statsMu.Lock()
			st.Aborted++
			statsMu.Unlock()
			return
		}
		cf.Actions = m.Log
		blocks := m.C.Blocks
		last := blocks[len(blocks)-1].Height
		var restarts []int64
		for h := int64(1); h < last; h++ {
			if uniform(rt, 6, "restart") == 0 {
				restarts = append(restarts, h)
			}
		}
		ex, _ := json.Marshal(recordedExtra{Restarts: restarts, Replicas: replicas})
		cf.Extra = ex
		if v := judgeReplicas(m, replicas, restarts, procs); v != nil {
			cf.Violation = v.Error()
			rt.Fatalf("VIOLATION %s\nhistory: %s", v.Error(), historyString(m))
		}
		// classification
		multiSeal, multiVal, txs := false, false, 0
		o, _ := m.Inv[0].(*oracleInv)
		_ = o
		for _, b := range blocks {
			if len(b.ValUpdates) >= 2 {
				multiVal = true
			}
			txs += len(b.Txs)
		}
		// two feeders closing in one block: same schedule or coinciding window ends
		ends := map[uint64]int{}
		for _, f := range m.W.Feeders {
			for b := f.StartBaseBlock; b <= uint64(last); b += f.Interval {
				ends[b+uint64(m.W.Cfg.OracleMaxNonce)]++
			}
		}
		for _, c := range ends {
			if c >= 2 {
				multiSeal = true
			}
		}
		stakers := 0
		if v, err := Observe(m.C); err == nil {
			for _, l := range v.StakerLists {
				if len(l) > stakers {
					stakers = len(l)
				}
			}
		}
		statsMu.Lock()
		st.Evaluations++
		st.Extra["replica-executions"] += int64(replicas + procs)
		st.Extra["blocks-compared"] += int64(len(blocks) * (replicas + procs))
		st.Extra["transactions-in-recorded-blocks"] += int64(txs)
		st.Extra["node-local-simulations-on-the-recording-node"] += int64(m.C.Simulated)
		if m.C.Simulated > 0 {
			st.Labels["history-with-node-local-simulations"]++
		}
		if multiSeal {
			st.Labels["two-feeders-close-in-one-block"]++
		}
		if multiVal {
			st.Labels["validator-update-list>=2"]++
		}
		if stakers >= 2 {
			st.Labels["operator-with>=2-stakers"]++
		}
		if multiSeal && (multiVal || stakers >= 2) {
			st.NonTrivial[shapeOf(m)] = true
			if len(st.Samples) < 2 {
				b, _ := json.Marshal(cf)
				st.Samples = append(st.Samples, b)
			}
		}
		statsMu.Unlock()
	})
}
