package props

import "testing"

func init() {
	registerWorldProp(&WorldProp{
		ID: "C09",
		Rule: "rapid histories of the world machine with 40% hostile variants (zero / oversized amounts, foreign callers, unknown operators and stakers, over-withdrawals, replayed and unknown slashes, NST updates beyond the position) over every restaking entry point reachable in the harness (assets and delegation precompile methods through real Ethereum transactions, operator and delegation messages, slash and NST-update keeper entry points); " +
			"non-trivial = a history with failing calls at 4 or more different entry points; distinct = hash of the (kind, outcome) sequence",
		Gen:        GenOpts{HostilePct: 40, ExtremePct: 4, Anchor: true, Tempos: []int{3, 10, 30}, CapBits: 90, Focus: true},
		MinSteps:   25,
		MaxSteps:   70,
		Config:     worldConfig,
		Invariants: func() []Invariant { return []Invariant{&atomicInv{}} },
		NonTrivial: func(m *Machine, invs []Invariant) (bool, []string) {
			a := invs[0].(*atomicInv)
			for k, n := range a.failing {
				m.Labels["failing-call-judged:"+k] += n
			}
			return len(a.failing) >= 4, nil
		},
	})
}

func TestC09(t *testing.T) { runWorldProp(t, "C09") }
