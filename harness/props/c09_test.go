package props

import (
	"testing"

	"exoverif/sim"

	"pgregory.net/rapid"
)

func init() {
	registerWorldProp(&WorldProp{
		ID: "C09",
		Rule: "rapid histories of the world machine with 40% hostile variants (zero / oversized amounts, foreign callers, unknown operators and stakers, over-withdrawals, replayed and unknown slashes, NST updates beyond the position) over every restaking entry point reachable in the harness (assets and delegation precompile methods through real Ethereum transactions, operator and delegation messages, slash and NST-update keeper entry points); " +
			"non-trivial = a history with failing calls at 4 or more different entry points; distinct = hash of the (kind, outcome) sequence",
		Gen:        GenOpts{HostilePct: 40, ExtremePct: 4, Anchor: true, Tempos: []int{3, 10, 30}, CapBits: 90, Focus: true},
		MinSteps:   25,
		MaxSteps:   70,
		Config:     worldConfig,
		Invariants: func() []Invariant { return []Invariant{&atomicInv{}} },
		NonTrivial: func(m *Machine, invs []Invariant) (bool, []string) {
			a := invs[0].(*atomicInv)
			for k, n := range a.failing {
				m.Labels["failing-call-judged:"+k] += n
			}
			return len(a.failing) >= 4, nil
		},
	})
}

func TestC09(t *testing.T) { runWorldProp(t, "C09") }

// the same oracle over the AVS entry points (AVS precompile methods through real Ethereum
// transactions, opt-in/out and task result messages, client chain and token registration):
// the AVS precompile answers "false" instead of reverting, so every failing path must have
// written nothing before it failed
func init() {
	base := *worldProps["C09"]
	base.Name = "C09AVS"
	w := avsWeights()
	for k, v := range map[string]int{"regToken": 3, "regChain": 2, "updToken": 2, "depositTok": 3, "optIn": 2, "optOut": 1, "setKey": 2, "undelegate": 3, "rawCall": 22} {
		w[k] = v
	}
	base.Gen = GenOpts{Weights: w, HostilePct: 25, ExtremePct: 2, Anchor: true, Tempos: []int{7, 12, 21}, CapBits: 40, ClampBits: 40, Dynamic: avsDynamic, WideChains: true}
	base.Config = avsConfig
	base.MinSteps, base.MaxSteps = 40, 120
	registerWorldProp(&base)
}

func TestC09AVS(t *testing.T) { runWorldProp(t, "C09AVS") }

// the second sentence of the property, for the item "one AVS's voting-power update": worlds in
// which the oracle cannot price one of the registered assets. An AVS that comes to support that
// asset (an update of its asset list after operators have opted in) fails its update at every
// end of its epoch from then on: its records must stay exactly as they were, and every other AVS
// whose epoch ends in the same block must still be updated correctly (the exact priced-stake
// oracle of C05 judges those)
func init() {
	base := *worldProps["C05"]
	base.ID, base.Name = "C09", "C09Epoch"
	base.Rule = "block-item failures: histories as C05 over worlds in which the oracle cannot price one registered asset; an AVS that comes to support it fails its voting-power update at every end of its epoch: its records must stay byte-identical and every other AVS whose epoch ends in the same block must be updated exactly (priced-stake oracle of C05); " +
		"non-trivial = a history with a failing AVS update and another AVS judged in the same block"
	cfgOf := base.Config
	base.Config = func(t *rapid.T) sim.Config {
		cfg := cfgOf(t)
		cfg.NumAVS = 2 + uniform(t, 2, "nAVS9")
		cfg.UnpricedAssets = []int{1}
		cfg.DogfoodAssets = []int{0}
		var fs []sim.FeederCfg
		for _, f := range cfg.Feeders {
			if f.Asset != 1 {
				fs = append(fs, f)
			}
		}
		cfg.Feeders = fs
		return cfg
	}
	w := map[string]int{}
	for k, v := range base.Gen.Weights {
		w[k] = v
	}
	w["avsUpdate"], w["avsRegister"], w["avsOptIn"], w["avsDeregister"] = 6, 7, 9, 0
	base.Gen.Weights = w
	base.Gen.Dynamic = func(m *Machine, w map[string]int) map[string]int {
		// once an AVS with opted-in operators has come to support the unpriceable asset, keep the
		// stakes and prices moving, so that skipped updates of the other AVSs become visible
		failing := false
		for _, info := range m.avsView().avs {
			if unpriceable(m, info) {
				if ops, err := m.C.App.OperatorKeeper.GetOptedInOperatorListByAVS(m.C.Ctx(), info.AvsAddress); err == nil && len(ops) > 0 {
					failing = true
				}
			}
		}
		if !failing {
			return w
		}
		out := map[string]int{}
		for k, v := range w {
			out[k] = v
		}
		for _, k := range []string{"delegate", "undelegate", "depositLST", "price"} {
			out[k] *= 3
		}
		out["avsUpdate"], out["avsRegister"] = 1, 2
		return out
	}
	base.Invariants = func() []Invariant {
		p := newPowerInv()
		p.AsC09 = true
		return []Invariant{p}
	}
	base.NonTrivial = func(m *Machine, invs []Invariant) (bool, []string) {
		p := invs[0].(*powerInv)
		m.Labels["block-items:avs-updates-that-fail"] += p.FailedItems
		m.Labels["block-items:failing-avs-with-operator-records"] += p.FailedWithOperators
		m.Labels["block-items:other-avs-updates-judged-in-a-block-with-a-failing-one"] += p.OthersAfterFail
		return p.FailedItems > 0 && p.OthersAfterFail > 0, nil
	}
	base.Adapt, base.Known = nil, nil
	registerWorldProp(&base)
}

func TestC09Epoch(t *testing.T) { runWorldProp(t, "C09Epoch") }
