package props

import "testing"

func init() {
	registerWorldProp(&WorldProp{
		ID: "C09",
		Rule: "rapid histories of the world machine with 40% hostile variants (zero / oversized amounts, foreign callers, unknown operators and stakers, over-withdrawals, replayed and unknown slashes, NST updates beyond the position) over every restaking entry point reachable in the harness (assets and delegation precompile methods through real Ethereum transactions, operator and delegation messages, slash and NST-update keeper entry points); " +
			"non-trivial = a history with failing calls at 4 or more different entry points; distinct = hash of the (kind, outcome) sequence",
		Gen:        GenOpts{HostilePct: 40, ExtremePct: 4, Anchor: true, Tempos: []int{3, 10, 30}, CapBits: 90, Focus: true},
		MinSteps:   25,
		MaxSteps:   70,
		Config:     worldConfig,
		Invariants: func() []Invariant { return []Invariant{&atomicInv{}} },
		NonTrivial: func(m *Machine, invs []Invariant) (bool, []string) {
			a := invs[0].(*atomicInv)
			for k, n := range a.failing {
				m.Labels["failing-call-judged:"+k] += n
			}
			return len(a.failing) >= 4, nil
		},
	})
}

func TestC09(t *testing.T) { runWorldProp(t, "C09") }

// the same oracle over the AVS entry points (AVS precompile methods through real Ethereum
// transactions, opt-in/out and task result messages, client chain and token registration):
// the AVS precompile answers "false" instead of reverting, so every failing path must have
// written nothing before it failed
func init() {
	base := *worldProps["C09"]
	base.Name = "C09AVS"
	w := avsWeights()
	for k, v := range map[string]int{"regToken": 3, "regChain": 2, "updToken": 2, "optIn": 2, "optOut": 1, "setKey": 2, "undelegate": 3, "rawCall": 22} {
		w[k] = v
	}
	base.Gen = GenOpts{Weights: w, HostilePct: 25, ExtremePct: 2, Anchor: true, Tempos: []int{7, 12, 21}, CapBits: 40, ClampBits: 40, Dynamic: avsDynamic}
	base.Config = avsConfig
	base.MinSteps, base.MaxSteps = 40, 120
	registerWorldProp(&base)
}

func TestC09AVS(t *testing.T) { runWorldProp(t, "C09AVS") }
