package props

import (
	"strings"
	"testing"

	"exoverif/sim"

	"github.com/ExocoreNetwork/exocore/utils"
	sdk "github.com/cosmos/cosmos-sdk/types"
	"pgregory.net/rapid"
)

// authConfig: AVS accounts, fast epochs, live price feeders, and a mainnet or testnet chain id
// (parameter updates are restricted to the governance authority on mainnet chain ids only).
func authConfig(t *rapid.T) sim.Config {
	cfg := powerConfig(t)
	cfg.NumAVS = rapid.IntRange(2, 3).Draw(t, "nAVS2")
	if rapid.IntRange(0, 3).Draw(t, "testnet?") == 0 {
		cfg.ChainID = utils.TestnetChainID + "-1"
	}
	return cfg
}

func authWeights() map[string]int {
	return map[string]int{
		"nextBlock": 16, "depositLST": 8, "withdrawLST": 3, "depositNST": 3, "withdrawNST": 1, "delegate": 8, "undelegate": 5, "associate": 4, "dissociate": 2,
		"regChain": 2, "regToken": 2, "updToken": 2, "avsRegister": 7, "avsUpdate": 4, "avsDeregister": 2, "avsOptIn": 8, "avsOptOut": 3, "avsBLS": 5,
		"avsTask": 6, "avsResult": 8, "avsChallenge": 3, "optIn": 3, "optOut": 2, "setKey": 3, "regOperator": 2, "nativeDelegate": 2, "nativeUndelegate": 1,
		"price": 8, "updateParams": 6,
	}
}

// makeProbe turns a rightful action into the same request made by somebody who is not entitled
// to it (nil if the kind has no such variant).
func makeProbe(t *rapid.T, m *Machine, a Action) *Action {
	p := a
	nIdent := len(m.idents())
	otherIdent := func(not int, l string) int {
		for i := 0; i < 8; i++ {
			if k := uniform(t, nIdent, l); k != not {
				return k
			}
		}
		return (not + 1) % nIdent
	}
	switch {
	case gatewayOnly(a.Kind):
		// any identity but the gateway (the gateway is the last identity of the pool)
		p.Caller = 2 + uniform(t, nIdent-1, "wrong-caller")
		if pct(t, 20, "unrelated?") {
			p.Caller = 1
		}
	case a.Kind == "optIn" || a.Kind == "optOut" || a.Kind == "setKey":
		p.Signer = 1 + otherIdent(m.OperatorIdent(a.Op), "wrong-signer")
		p.Forge = uniform(t, 3, "forge")
	case a.Kind == "regOperator":
		p.Signer = 1 + otherIdent(a.Ident, "wrong-signer")
		p.Forge = uniform(t, 3, "forge")
	case a.Kind == "nativeDelegate" || a.Kind == "nativeUndelegate":
		rightful := a.Actor
		if a.Actor < len(m.W.Stakers) {
			rightful = len(m.W.AVSKeys) + len(m.W.Operators) + a.Actor
		} else {
			rightful = len(m.W.AVSKeys) + (a.Actor - len(m.W.Stakers))
		}
		p.Signer = 1 + otherIdent(rightful, "wrong-signer")
		p.Forge = uniform(t, 3, "forge")
	case a.Kind == "price":
		p.Sig = 1 + uniform(t, 3, "bad-sig")
		if len(m.Keys) > 1 && pct(t, 30, "forged-cosigner?") {
			// a valid report of one validator carrying a second one in the name of another
			// validator, "co-signed" with the first validator's key
			p.Sig = 0
			b := (a.Key + 1 + uniform(t, len(m.Keys)-1, "cosigner")) % len(m.Keys)
			p.Co = b + 1
			p.CoNonce = 1
			if n, found := m.C.App.OracleKeeper.GetNonce(m.C.Ctx(), sdk.ConsAddress(m.Keys[b].ConsAddr()).String()); found {
				for _, e := range n.NonceList {
					if e.FeederID == a.Feeder {
						p.CoNonce = int32(e.Value) + 1
					}
				}
			}
		}
	case a.Kind == "updateParams":
		return nil // every generated parameter update is a probe already
	case a.Kind == "govSubmit":
		if a.Module == "" || a.Module == "text" || a.Mode == 1 {
			return nil
		}
		p.Mode = 1 // the same proposal, the carried update names the proposer as authority
	case a.Avs != nil:
		x := *a.Avs
		p.Avs = &x
		switch a.Kind {
		case "avsRegister":
			// the sender is not among the listed owners
			var owners []int
			for _, o := range x.Owners {
				if o != x.Sender {
					owners = append(owners, o)
				}
			}
			if len(owners) == 0 {
				owners = []int{otherIdent(x.Sender, "owner")}
			}
			x.Owners = owners
		case "avsUpdate", "avsDeregister", "avsTask":
			if pct(t, 50, "other-contract?") {
				x.From = otherIdent(x.From, "wrong-from") // another address claims to be the AVS / task contract
			} else {
				x.Sender = otherIdent(x.Sender, "wrong-sender") // most likely not an owner
			}
		case "avsChallenge":
			x.From = otherIdent(x.From, "wrong-from")
		case "avsOptIn", "avsOptOut":
			if x.Via == 1 {
				p.Signer = 1 + otherIdent(x.From, "wrong-signer")
				p.Forge = uniform(t, 3, "forge")
			} else {
				return nil // the precompile variant is a probe by itself (sender is not the signer)
			}
		case "avsBLS":
			if avoidedC10 != nil && activeKnown["C10"]["C10.I3.precompile-sender-not-signer/avs-precompile-trusts-sender"] {
				*avoidedC10++
				return nil
			}
			x.From = otherIdent(x.Sender, "third-party")
		case "avsResult":
			if pct(t, 50, "forged-sig?") {
				p.Signer = 1 + otherIdent(x.From, "wrong-signer")
				p.Forge = uniform(t, 3, "forge")
			} else {
				x.From = otherIdent(x.Operator, "other-signer") // signs for itself, names another operator
			}
		default:
			return nil
		}
	default:
		return nil
	}
	p.Hostile = true
	return &p
}

var avoidedC10 = new(int)

func init() {
	registerWorldProp(&WorldProp{
		ID: "C10",
		Rule: "rapid histories over every state-changing entry point (assets/delegation/AVS precompile methods, operator, delegation, AVS and parameter messages, price transactions); each generated request is, with probability 1/2, first made by a generated caller that is not entitled to it " +
			"(another contract account, EOA, operator, staker; non-owner; signer other than the named account with own key, with the named account's public key, or without signature; forged/missing price signature; ordinary account as governance authority) and then by the rightful caller; " +
			"non-trivial = a history with at least 6 judged probes of at least 4 kinds, at least 2 of them confirmed by their rightful twin being accepted; distinct = hash of the (kind, outcome) sequence",
		Gen:        GenOpts{Weights: authWeights(), HostilePct: 2, ExtremePct: 0, Anchor: true, Tempos: []int{7, 12, 21}, CapBits: 40, ClampBits: 40, Dynamic: authDynamic},
		MinSteps:   40,
		MaxSteps:   120,
		Config:     authConfig,
		Invariants: func() []Invariant { return []Invariant{newAuthInv(), &oracleInv{}} },
		Adapt: func(g *GenOpts, active map[string]bool, st *PropStats) {
			// listed finding: the AVS precompile acts for whatever `sender` it is given. While it
			// still reproduces, such calls are kept out of the histories (and counted) so that the
			// search goes on behind them; the saved input is re-run at the start of every run.
			g.AvoidSenderNotSigner = nil
			if active["C10.I3.precompile-sender-not-signer/avs-precompile-trusts-sender"] {
				g.AvoidSenderNotSigner = avoidedC10
			}
		},
		Known: func(m *Machine, v *Violation) string {
			if v.ID == "C10.I3.precompile-sender-not-signer" && activeKnown["C10"]["C10.I3.precompile-sender-not-signer/avs-precompile-trusts-sender"] {
				return "C10.I3.precompile-sender-not-signer/avs-precompile-trusts-sender"
			}
			return ""
		},
		NonTrivial: func(m *Machine, invs []Invariant) (bool, []string) {
			a := invs[0].(*authInv)
			n, kinds, conf := 0, map[string]bool{}, 0
			for k, v := range a.Probes {
				m.Labels["probe:"+k] += v
				n += v
				kinds[k] = true
			}
			for k, v := range a.Confirmed {
				m.Labels["twin-accepted:"+k] += v
				conf += v
			}
			m.Labels["param-updates-on-testnet-chain-id(no claim)"] += a.Testnet
			st := getStats("C10")
			statsMu.Lock()
			st.Excluded["sender-not-signer-precompile-calls-avoided-by-construction"] = *avoidedC10
			statsMu.Unlock()
			return n >= 6 && len(kinds) >= 4 && conf >= 2, nil
		},
	})
}

// authDynamic keeps the AVS part of the state moving (see avsDynamic) without starving the rest.
func authDynamic(m *Machine, w map[string]int) map[string]int {
	out := avsDynamic(m, w)
	// the non-AVS entry points keep their share
	for k, v := range w {
		if !strings.HasPrefix(k, "avs") && k != "nextBlock" {
			out[k] = v
		}
	}
	return out
}

func TestC10(t *testing.T) { runWorldPropWith(t, "C10", makeProbe) }

// the governance side of the property: on chains whose governance can be funded, proposals
// carrying parameter updates are submitted, funded and voted on by validators and by everybody
// else while the validator set changes; parameters may change only through a passed proposal
// (or, on testnet chain ids, a direct update), and a proposal passes only with the majority of
// the voting power consensus knows (inv_gov.go)
func init() {
	base := *worldProps["C10"]
	base.Name = "C10Gov"
	base.Config = func(t *rapid.T) sim.Config {
		cfg := govConfig(t)
		if rapid.IntRange(0, 4).Draw(t, "testnet?") == 0 {
			cfg.ChainID = utils.TestnetChainID + "-1"
		}
		return cfg
	}
	base.Gen = GenOpts{HostilePct: 2, ExtremePct: 0, Anchor: true, Tempos: []int{3, 10, 30}, CapBits: 40, ClampBits: 40,
		Weights: map[string]int{
			"nextBlock": 28, "govSubmit": 14, "govDeposit": 5, "govVote": 26, "updateParams": 6, "depositLST": 3, "delegate": 5, "undelegate": 3,
			"optIn": 3, "optOut": 3, "setKey": 3, "slash": 1, "msgUnjail": 1,
		}}
	base.MinSteps, base.MaxSteps = 40, 120
	base.Invariants = func() []Invariant { return []Invariant{newAuthInv(), newGovInv()} }
	base.Adapt = nil
	base.Known = nil
	base.NonTrivial = func(m *Machine, invs []Invariant) (bool, []string) {
		a := invs[0].(*authInv)
		g := invs[1].(*govInv)
		for k, v := range a.Probes {
			m.Labels["probe:"+k] += v
		}
		m.Labels["gov:proposals-tallied"] += g.Tallies
		m.Labels["gov:proposals-passed"] += g.Passed
		m.Labels["gov:tally-agrees-with-model"] += g.Agree
		m.Labels["gov:parameter-sets-changed-by-passed-proposal"] += g.ByGov
		m.Labels["gov:parameter-sets-changed-by-testnet-tx"] += g.ByTestnetTx
		return g.Tallies >= 1 && (g.Passed >= 1 || g.ByTestnetTx >= 1), nil
	}
	registerWorldProp(&base)
}

func TestC10Gov(t *testing.T) { runWorldPropWith(t, "C10Gov", makeProbe) }
