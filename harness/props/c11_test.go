package props

import (
	"encoding/hex"
	"math/big"
	"strings"
	"testing"

	"exoverif/sim"

	govv1 "github.com/cosmos/cosmos-sdk/x/gov/types/v1"
	"pgregory.net/rapid"
)

// livenessInv counts what the hostile histories got accepted; the oracle itself is the
// driver's recover() around every ABCI call (a Halt ends the case as a C11 violation).
type livenessInv struct {
	hostileAccepted int
	blocksAfter     int
	blocksAfterAny  int
}

func (l *livenessInv) Init(m *Machine) error        { return nil }
func (l *livenessInv) Before(m *Machine, a *Action) {}
func (l *livenessInv) After(m *Machine, a *Action, o Outcome) error {
	if a.Hostile && o.OK {
		l.hostileAccepted++
	}
	if a.Kind == "nextBlock" && l.hostileAccepted > 0 {
		l.blocksAfter++
	}
	if a.Kind == "nextBlock" {
		l.blocksAfterAny++
	}
	if m.C.ValSetErr != nil && !strings.Contains(m.C.ValSetErr.Error(), "empty set") {
		// (an emptied validator set - every validator left or lost its stake - is out of scope:
		// no proof-of-stake chain stays live without validators; Machine.Step ends such a case)
		return violation("C11.I2.consensus-would-panic", "validator update rejected by the consensus engine's validator set: %v", m.C.ValSetErr)
	}
	return nil
}

// drainTail advances the chain over one end of every epoch identifier.
func drainTail(m *Machine) []Action {
	out := []Action{}
	for i := 0; i < 3; i++ {
		out = append(out, Action{Kind: "nextBlock", Dt: 61})
	}
	out = append(out, Action{Kind: "nextBlock", Dt: 3601}, Action{Kind: "nextBlock", Dt: 1})
	out = append(out, Action{Kind: "nextBlock", Dt: 86401}, Action{Kind: "nextBlock", Dt: 1})
	out = append(out, Action{Kind: "nextBlock", Dt: 7 * 86400}, Action{Kind: "nextBlock", Dt: 1}, Action{Kind: "nextBlock", Dt: 61})
	for i := 0; i < 12; i++ {
		out = append(out, Action{Kind: "nextBlock", Dt: 2})
	}
	return out
}

var cappedC11 int

func init() {
	registerWorldProp(&WorldProp{
		ID: "C11",
		Rule: "rapid histories of the world machine in hostile mode (zero/extreme amounts, wrong callers, slashes of any consensus address, any factor) followed by blocks covering an end of every epoch identifier; " +
			"non-trivial = at least one hostile/extreme input was accepted into state and at least one later block was processed; distinct = hash of the (kind, outcome) sequence",
		Gen:        GenOpts{HostilePct: 30, ExtremePct: 15, MaxDt: 70},
		MinSteps:   10,
		MaxSteps:   50,
		Config:     worldConfig,
		Invariants: func() []Invariant { return []Invariant{&livenessInv{}} },
		Tail:       drainTail,
		Adapt: func(g *GenOpts, active map[string]bool, st *PropStats) {
			// listed findings: fixed-width arithmetic overflows in Begin/EndBlock for extreme amounts.
			// While they still reproduce, extreme amounts are capped (and counted) so that the search
			// goes on behind them.
			g.CapBits = 0
			if active["C11.I1.halt/dec-overflow"] || active["C11.I1.halt/power-int64"] || active["C11.I2.consensus-would-panic/power-exceeds-consensus-maximum"] {
				g.CapBits = 40
				g.Capped = &cappedC11
				// ordinary generated amounts (up to 10^24 base units) reach the same overflow
				// domain once a price is applied: keep them below it as well
				g.ClampBits = 40
			}
		},
		Known: func(m *Machine, v *Violation) string {
			act := activeKnown["C11"]
			big := false
			for i, a := range m.Log {
				if i < len(m.Outs) && m.Outs[i].OK && a.Amount != "" && amt(a.Amount).BitLen() > 40 {
					big = true
				}
				if i < len(m.Outs) && m.Outs[i].OK {
					for _, x := range a.Amounts {
						if amt(x).BitLen() > 40 {
							big = true
						}
					}
				}
				if i < len(m.Outs) && m.Outs[i].OK && a.Kind == "rawCall" && rawCallHasBigWord(a.Data) {
					big = true
				}
				if i < len(m.Outs) && m.Outs[i].OK && a.Kind == "price" {
					for _, p := range a.Prices {
						if len(p) > 18 { // a price above 10^18 has the same effect as an amount above 2^60
							big = true
						}
					}
				}
			}
			if !big {
				return ""
			}
			if act["C11.I1.halt/dec-overflow"] && strings.Contains(v.Msg, "Int overflow") {
				return "C11.I1.halt/dec-overflow"
			}
			if act["C11.I1.halt/power-int64"] && strings.Contains(v.Msg, "Int64() out of bound") {
				return "C11.I1.halt/power-int64"
			}
			if act["C11.I2.consensus-would-panic/power-exceeds-consensus-maximum"] && strings.Contains(v.Msg, "voting power can't be higher") {
				return "C11.I2.consensus-would-panic/power-exceeds-consensus-maximum"
			}
			return ""
		},
		NonTrivial: func(m *Machine, invs []Invariant) (bool, []string) {
			l := invs[0].(*livenessInv)
			st := getStats("C11")
			statsMu.Lock()
			st.Excluded["extreme-amounts-capped-by-construction"] = cappedC11
			statsMu.Unlock()
			return l.hostileAccepted > 0 && l.blocksAfter > 0, nil
		},
	})
}

func TestC11(t *testing.T) { runWorldProp(t, "C11") }

// the same oracle over histories with several AVSs: registrations, updates, opt-ins into more
// than one AVS, tasks, results and challenges interleaved with restaking and fee payments, so
// that every epoch hook (voting power, fee distribution, task statistics) runs over such states
func init() {
	base := *worldProps["C11"]
	base.Name = "C11AVS"
	w := avsWeights()
	for k, v := range map[string]int{"payFee": 3, "nativeDelegate": 2, "optIn": 2, "optOut": 1, "setKey": 1, "undelegate": 4, "depositNST": 1, "nstUpdate": 1, "regToken": 3, "regChain": 2, "updToken": 1, "rawCall": 14, "depositTok": 3} {
		w[k] = v
	}
	base.Gen = GenOpts{Weights: w, HostilePct: 15, ExtremePct: 4, MaxDt: 40, Tempos: []int{7, 21, 45}, Dynamic: avsDynamic, Anchor: true, WideChains: true}
	base.Config = avsConfig
	base.MinSteps, base.MaxSteps = 30, 100
	registerWorldProp(&base)
}

func TestC11AVS(t *testing.T) { runWorldProp(t, "C11AVS") }

// the same oracle over histories in which the price feeder of the native-restaking asset is
// live: its "price" is an encoding of balance changes that the oracle module parses and applies,
// also when a round is carried forward at the end of a block; price strings of every length,
// stakers joining and leaving in between
func init() {
	base := *worldProps["C11"]
	base.Name = "C11NST"
	long := func(c string, n int) string { return strings.Repeat(c, n) }
	base.Gen = GenOpts{
		Weights:    map[string]int{"price": 46, "nextBlock": 26, "depositNST": 9, "withdrawNST": 5, "delegate": 4, "undelegate": 3, "nstUpdate": 2, "depositLST": 2, "optOut": 1, "optIn": 2},
		HostilePct: 8, ExtremePct: 0, Anchor: true, Tempos: []int{3, 8, 30}, CapBits: 40,
		PricePool: []string{"100", "100", "2", long("7", 40), long("7", 40), long("1", 33), long("9", 64), "1" + long("0", 31), long("3", 32)},
	}
	base.Config = func(t *rapid.T) sim.Config {
		cfg := oracleConfig(t)
		// one of the feeders serves the native-restaking asset
		cfg.Feeders[0].Asset = 2
		cfg.Feeders[0].EndBlock, cfg.Feeders[0].ResumeAfter = 0, 0
		// the native-restaking asset does not count for the chain's own voting power here:
		// otherwise every long price string ends in the listed int64 overflow (K2) at the next
		// epoch end and hides what lies behind it
		cfg.DogfoodAssets = []int{0, 1}
		return cfg
	}
	base.MinSteps, base.MaxSteps = 30, 100
	base.Invariants = func() []Invariant { return []Invariant{&livenessInv{}, &oracleInv{}} }
	base.NonTrivial = func(m *Machine, invs []Invariant) (bool, []string) {
		l := invs[0].(*livenessInv)
		long := 0
		for i, a := range m.Log {
			if a.Kind == "price" && i < len(m.Outs) && m.Outs[i].OK {
				for _, p := range a.Prices {
					if len(p) >= 32 {
						long++
					}
				}
			}
		}
		m.Labels["long-price-strings-accepted"] += long
		return long > 0 && l.blocksAfterAny > 3, nil
	}
	registerWorldProp(&base)
}

func TestC11NST(t *testing.T) { runWorldProp(t, "C11NST") }

// rawCallHasBigWord: does the calldata of a raw precompile call carry a 32-byte word above 2^60
// that is not an address-like or all-ones padding value (i.e. possibly an amount)?
func rawCallHasBigWord(dataHex string) bool {
	b, err := hex.DecodeString(dataHex)
	if err != nil || len(b) < 36 {
		return false
	}
	for off := 4; off+32 <= len(b); off += 32 {
		w := new(big.Int).SetBytes(b[off : off+32])
		if w.BitLen() > 40 {
			return true
		}
	}
	return false
}

// the same oracle over histories with downtime: validators missing from the last commit until
// x/slashing (short window) slashes and jails them through the staking interface, interleaved
// with everything else
func init() {
	base := *worldProps["C11"]
	base.Name = "C11Down"
	base.Gen = GenOpts{HostilePct: 12, ExtremePct: 2, MaxDt: 40, Tempos: []int{3, 10, 30}, DowntimePct: 40, Anchor: true,
		Weights: map[string]int{
			"nextBlock": 44, "depositLST": 5, "delegate": 8, "undelegate": 7, "associate": 2, "optIn": 4, "optOut": 3, "setKey": 4,
			"slash": 2, "evidence": 2, "unjail": 1, "msgUnjail": 6, "jail": 1, "nativeDelegate": 2, "nativeUndelegate": 2, "payFee": 2, "depositNST": 1, "nstUpdate": 1,
		}}
	base.Config = func(t *rapid.T) sim.Config {
		cfg := worldConfig(t)
		cfg.Slashing = &sim.SlashingCfg{
			Window:           int64(2 + uniform(t, 7, "window")),
			MinSigned:        []string{"0.5", "0.05", "1", "0.75"}[uniform(t, 4, "minSigned")],
			JailSeconds:      int64([]int{1, 10, 60, 600}[uniform(t, 4, "jail")]),
			FractionDowntime: []string{"0", "0.01", "0.5", "1"}[uniform(t, 4, "fraction")],
		}
		return cfg
	}
	base.MinSteps, base.MaxSteps = 30, 90
	base.NonTrivial = func(m *Machine, invs []Invariant) (bool, []string) {
		down := 0
		for _, a := range m.Log {
			if a.Kind == "nextBlock" && len(a.Absent) > 0 {
				down++
			}
		}
		jailed := 0
		for _, k := range m.Keys {
			if m.C.App.OperatorKeeper.IsOperatorJailedForChainID(m.C.Ctx(), k.ConsAddr(), m.chainIDNoRev()) {
				jailed++
			}
		}
		m.Labels["blocks-with-absent-validators"] += down
		m.Labels["operators-jailed-at-the-end"] += jailed
		return down >= 3 && jailed > 0, nil
	}
	registerWorldProp(&base)
}

func TestC11Down(t *testing.T) { runWorldProp(t, "C11Down") }

// the same oracle over histories with governance traffic: proposals (empty, legacy text,
// parameter updates naming the governance account or the proposer as authority) are submitted by
// any account with deposits around the minimum, funded, voted on (validators' operator accounts
// and everybody else, plain and weighted, valid and invalid options) while operators opt out,
// replace keys, get slashed and jailed; the gov module's EndBlocker tallies through the dogfood
// keeper and executes what passed
func init() {
	base := *worldProps["C11"]
	base.Name = "C11Gov"
	base.Gen = GenOpts{HostilePct: 10, ExtremePct: 2, MaxDt: 30, Tempos: []int{3, 10, 30}, Anchor: true, DowntimePct: 10,
		Weights: map[string]int{
			"nextBlock": 30, "govSubmit": 12, "govDeposit": 6, "govVote": 22, "depositLST": 4, "delegate": 6, "undelegate": 5, "optIn": 3, "optOut": 3, "setKey": 3,
			"slash": 2, "evidence": 1, "msgUnjail": 2, "jail": 1, "payFee": 2, "updateParams": 2,
		}}
	base.Config = govConfig
	base.MinSteps, base.MaxSteps = 30, 100
	base.NonTrivial = func(m *Machine, invs []Invariant) (bool, []string) {
		tallied := 0
		for _, p := range m.govProposals() {
			m.Labels["proposals-"+p.Status.String()]++
			if p.Status == govv1.StatusPassed || p.Status == govv1.StatusRejected || p.Status == govv1.StatusFailed {
				tallied++
			}
		}
		return tallied > 0, nil
	}
	registerWorldProp(&base)
}

// govConfig: a world whose governance can be funded in the native token and whose deposit and
// voting periods end within a history
func govConfig(t *rapid.T) sim.Config {
	cfg := worldConfig(t)
	cfg.Gov = &sim.GovCfg{
		MinDeposit:     []int64{1, 1000, 1000000}[uniform(t, 3, "minDeposit")],
		DepositSeconds: int64([]int{5, 40, 200}[uniform(t, 3, "depositPeriod")]),
		VotingSeconds:  int64([]int{5, 30, 90}[uniform(t, 3, "votingPeriod")]),
	}
	cfg.Slashing = &sim.SlashingCfg{Window: 4, MinSigned: "0.5", JailSeconds: 10, FractionDowntime: "0.01"}
	return cfg
}

func TestC11Gov(t *testing.T) { runWorldProp(t, "C11Gov") }
