package props

import (
	sdk "github.com/cosmos/cosmos-sdk/types"
	"strings"
	"testing"

	"exoverif/sim"

	"pgregory.net/rapid"
)

// oracleConfig: several validators of unequal power, 1-2 active feeders with generated
// intervals and windows.
func oracleConfig(t *rapid.T) sim.Config {
	cfg := sim.DefaultConfig(uint64(rapid.IntRange(1, 1<<30).Draw(t, "seed")))
	n := rapid.IntRange(1, 5).Draw(t, "nVals")
	if n < 3 && uniform(t, 3, "more") > 0 {
		n = 3 + uniform(t, 3, "n3")
	}
	cfg.NumOperators = n + uniform(t, 2, "extraOp")
	cfg.NumValidators = n
	cfg.MaxValidators = uint32(cfg.NumOperators)
	cfg.SelfStake = make([]int64, cfg.NumOperators)
	splits := [][]int64{{1, 1, 1, 1, 1}, {2, 1, 1, 1, 1}, {3, 2, 1, 1, 1}, {4, 1, 1, 1, 1}, {5, 3, 2, 1, 1}, {34, 33, 33, 10, 10}, {67, 33, 20, 10, 5}, {100, 50, 25, 12, 6}}
	sp := splits[uniform(t, len(splits), "split")]
	for i := range cfg.SelfStake {
		cfg.SelfStake[i] = sp[i%len(sp)]
	}
	cfg.MinSelfDelegation = 0
	cfg.OracleMaxNonce = int32(rapid.IntRange(1, 4).Draw(t, "maxNonce"))
	cfg.EpochsUntilUnbonded = 1
	nf := 1 + uniform(t, 2, "nFeeders")
	cfg.Feeders = nil
	for i := 0; i < nf; i++ {
		mn := int(cfg.OracleMaxNonce)
		f := sim.FeederCfg{Asset: i, StartBaseBlock: uint64(rapid.IntRange(1, 6).Draw(t, "startBase")), Interval: uint64(rapid.IntRange(2*mn, 2*mn+5).Draw(t, "interval"))}
		if uniform(t, 3, "ends?") == 0 {
			// the end block must not fall into the window of a round
			k := uint64(rapid.IntRange(0, 4).Draw(t, "endK"))
			r := uint64(rapid.IntRange(mn, int(f.Interval)-1).Draw(t, "endR"))
			f.EndBlock = f.StartBaseBlock + k*f.Interval + r
			if uniform(t, 3, "resume?") > 0 {
				f.ResumeAfter = uint64(rapid.IntRange(1, 8).Draw(t, "resumeAfter"))
				f.ResumeInterval = uint64(rapid.IntRange(2*mn, 2*mn+5).Draw(t, "resumeInterval"))
			}
		}
		cfg.Feeders = append(cfg.Feeders, f)
	}
	cfg.Assets[0].Decimals, cfg.Assets[1].Decimals = 0, 0
	return cfg
}

// oracleDynamic: outside every submission window a price transaction can only be rejected;
// C12's histories then mostly move on to the next block (C13 keeps the static weights: rejected
// submissions are its subject).
func oracleDynamic(m *Machine, w map[string]int) map[string]int {
	open := false
	for _, k := range m.Keys {
		if !m.C.ValSet.HasAddress(k.ConsAddr()) {
			continue
		}
		if n, found := m.C.App.OracleKeeper.GetNonce(m.C.Ctx(), sdk.ConsAddress(k.ConsAddr()).String()); found && len(n.NonceList) > 0 {
			open = true
			break
		}
	}
	if open {
		return w
	}
	out := map[string]int{}
	for k, v := range w {
		out[k] = v
	}
	out["price"] = w["price"] / 8
	return out
}

func oracleWeights() map[string]int {
	return map[string]int{"price": 60, "nextBlock": 24, "depositLST": 2, "delegate": 3, "undelegate": 1, "optOut": 3, "optIn": 2}
}

func init() {
	registerWorldProp(&WorldProp{
		ID: "C12",
		Rule: "rapid histories of signed oracle price transactions through the full ante chain (1-5 validators with power splits around 2/3, 1-2 feeders with generated start blocks, intervals, end blocks and window sizes; agreeing, conflicting, duplicate, late and multi-source-round submissions in any order and block placement) plus stake changes that alter the validator set and node restarts at 8% of the block boundaries, against a round model; " +
			"non-trivial = a history with at least one round closed by consensus and one closed by carry-forward, with at least 3 validators of unequal power; distinct = hash of the (kind, outcome) sequence",
		Gen:      GenOpts{Weights: oracleWeights(), HostilePct: 10, ExtremePct: 0, Anchor: true, Tempos: []int{3, 8, 30}, CapBits: 40, ClampBits: 40, TwoSignerPct: 6, RestartPct: 8, Dynamic: oracleDynamic},
		MinSteps: 30,
		MaxSteps: 110,
		Config:   oracleConfig,
		Invariants: func() []Invariant {
			return []Invariant{&oracleInv{checkRounds: true, checkAdmission: true}}
		},
		Tail: func(m *Machine) []Action {
			out := []Action{}
			for i := 0; i < 10; i++ {
				out = append(out, Action{Kind: "nextBlock", Dt: 3})
			}
			return out
		},
		NonTrivial: func(m *Machine, invs []Invariant) (bool, []string) {
			o := invs[0].(*oracleInv)
			m.Labels["node-restarts"] += m.Restarts
			m.Labels["rounds-closed-by-consensus"] += o.byConsensus
			m.Labels["rounds-closed-by-carry-forward"] += o.byCarry
			m.Labels["submissions-rejected"] += o.rejected
			m.Labels["submissions-admitted-only"] += o.admittedOnly
			m.Labels["submissions-counted"] += o.counted
			return o.NonTrivialRounds(), nil
		},
	})
	// (the listed finding K10 of C13 also shows in these histories, which share generator and
	// oracle: a two-signer transaction whose second report fails keeps the first in memory)
	worldProps["C12"].Known = func(m *Machine, v *Violation) string {
		const k10 = "C13.I4.uncounted-changed-memory/failed-transaction-keeps-first-report"
		if v.ID == "C13.I4.uncounted-changed-memory" && strings.Contains(v.Msg, "the transaction fails as a whole") && activeKnown["C12"][k10] {
			return k10
		}
		return ""
	}
	base := *worldProps["C12"]
	base.ID, base.Name = "C13", "C13"
	base.Rule = "the same histories with 35% perturbed submissions (every field: feeder id, base block, nonce, sources, decimals, timestamps around +5 s, size around 1000 bytes, forged / foreign / missing signatures, two messages in one transaction, former validators and ordinary accounts) in DeliverTx, CheckTx and ReCheckTx, against an admission/counting model with byte-level store and memory diffs; " +
		"non-trivial = a history containing a rejected, an admitted-but-uncounted and a counted submission; distinct = hash of the (kind, outcome) sequence"
	base.Gen = GenOpts{Weights: oracleWeights(), HostilePct: 35, ExtremePct: 0, Anchor: true, Tempos: []int{3, 8, 30}, CapBits: 40, ClampBits: 40, FailingSecondMsg: true, TwoSignerPct: 8}
	const k10 = "C13.I4.uncounted-changed-memory/failed-transaction-keeps-first-report"
	base.Adapt = func(g *GenOpts, active map[string]bool, st *PropStats) {
		// listed finding: a price transaction whose second message fails keeps its first message's
		// report in the oracle's memory. While it still reproduces (its saved input is re-run at
		// the start of every run), such transactions are kept out of the histories and counted.
		g.AvoidFailingSecondMsg = nil
		if active[k10] {
			g.AvoidFailingSecondMsg = avoidedC13
		}
	}
	base.Known = func(m *Machine, v *Violation) string {
		if v.ID == "C13.I4.uncounted-changed-memory" && strings.Contains(v.Msg, "the transaction fails as a whole") && activeKnown["C13"][k10] {
			return k10
		}
		return ""
	}
	base.NonTrivial = func(m *Machine, invs []Invariant) (bool, []string) {
		o := invs[0].(*oracleInv)
		st := getStats("C13")
		statsMu.Lock()
		st.Excluded["two-message-transactions-with-failing-second-message-avoided-by-construction"] = *avoidedC13
		statsMu.Unlock()
		m.Labels["submissions-rejected"] += o.rejected
		m.Labels["submissions-admitted-only"] += o.admittedOnly
		m.Labels["submissions-counted"] += o.counted
		m.Labels["two-signer-transactions-with-both-reports-counted"] += o.TwoSigner
		return o.NonTrivialAdmission(), nil
	}
	registerWorldProp(&base)
}

var avoidedC13 = new(int)

func TestC12(t *testing.T) { runWorldProp(t, "C12") }
func TestC13(t *testing.T) { runWorldProp(t, "C13") }
