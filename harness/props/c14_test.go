package props

import (
	"encoding/json"
	"fmt"
	"os"
	"sort"
	"strings"
	"testing"

	"exoverif/sim"

	"pgregory.net/rapid"
)

// recordedCase is the replayable form of a C14 / C08 case: a configuration, the action list
// that produced the blocks, and the restart heights.
type recordedExtra struct {
	Restarts []int64 `json:"restarts,omitempty"`
	Replicas int     `json:"replicas,omitempty"`
}

// recordHistory runs the drawn (or given) actions on a recording chain without any invariant
// and returns the machine (its chain holds the transcript of the continuous run).
func recordHistory(t failer, p *WorldProp, cfg sim.Config, next func(m *Machine, i int) (Action, bool)) *Machine {
	m, err := NewMachine(cfg, &oracleInv{}) // model-only: annotates the history, judges nothing
	if err != nil {
		return nil
	}
	// block 1 is already in progress: record it too
	m.C.Record = true
	m.C.StartRecordingCurrentBlock()
	for i := 0; ; i++ {
		a, ok := next(m, i)
		if !ok {
			break
		}
		if a.Kind == "price" && a.Mode > 0 {
			a.Mode = 0 // CheckTx is not part of a block
		}
		if err := m.Step(a); err != nil {
			return nil // a halt: C11's subject
		}
	}
	if p.Tail != nil {
		for _, a := range p.Tail(m) {
			if err := m.Step(a); err != nil {
				return nil
			}
		}
	}
	// close the block in progress
	m.C.EndBlock()
	m.C.Commit()
	if m.C.Halted != nil || m.C.ValSetErr != nil {
		return nil // halts and update lists the consensus engine rejects are C11's / C06's subject
	}
	return m
}

// restartClass says why a restart height is interesting.
func restartClasses(m *Machine, blocks []sim.BlockRecord, r int64) []string {
	var out []string
	maxNonce := int64(m.W.Cfg.OracleMaxNonce)
	for _, f := range m.W.Feeders {
		if uint64(r) < f.StartBaseBlock || (f.EndBlock > 0 && uint64(r) >= f.EndBlock) {
			continue
		}
		left := (uint64(r) - f.StartBaseBlock) % f.Interval
		switch {
		case left == 0:
			out = append(out, "round-just-opened")
		case int64(left) < maxNonce:
			out = append(out, "mid-window")
		case int64(left) == maxNonce:
			out = append(out, "window-just-ended")
		}
	}
	for _, b := range blocks {
		if len(b.ValUpdates) > 0 && b.Height <= r && r-b.Height <= maxNonce {
			out = append(out, "after-validator-set-change")
		}
		if b.Height == r {
			for _, tr := range b.TxResults {
				if tr.Code == 0 {
					out = append(out, "block-with-accepted-tx")
					break
				}
			}
		}
	}
	sort.Strings(out)
	return out
}

func judgeRestarts(m *Machine, restarts []int64) *Violation {
	set := map[int64]bool{}
	for _, r := range restarts {
		set[r] = true
	}
	cont := m.C.Blocks
	memCont := sim.OracleMemDumpNoNonce()
	c2, err := sim.Replay(m.W, cont, set)
	if err != nil {
		if h, ok := err.(*sim.Halt); ok && os.Getenv("VERIF_DEBUG_HALT") != "" {
			fmt.Printf("DEBUGHALT %s\n%s\n", h.Error(), h.Stack)
		}
		return violation("C14.I2.restarted-node-halts", "restarts after %v: %v", restarts, err)
	}
	if d := sim.CompareTranscripts(cont, c2.Blocks); d != "" {
		detail := ""
		// locate the diverging store keys: replay both variants up to the first differing block
		for i := range cont {
			if i < len(c2.Blocks) && string(cont[i].AppHash) != string(c2.Blocks[i].AppHash) {
				a, errA := sim.Replay(m.W, cont[:i+1], nil)
				b, errB := sim.Replay(m.W, cont[:i+1], set)
				if errA == nil && errB == nil {
					stores := append([]string{"bank", "acc", "evm"}, sim.RestakingStores...)
					da := a.Snap(a.CommittedCtx(), stores...)
					db := b.Snap(b.CommittedCtx(), stores...)
					for j, e := range sim.Diff(da, db) {
						if j >= 4 {
							break
						}
						detail += "\n      continuous vs restarted: " + e.String()
					}
				}
				break
			}
		}
		return violation("C14.I1.diverged", "node restarted after heights %v diverges from the node that never stopped: %s%s", restarts, d, detail)
	}
	_ = memCont
	return nil
}

func init() {
	base := *worldProps["C12"]
	base.ID, base.Name = "C14", "C14"
	base.Invariants = func() []Invariant { return nil }
	base.MinSteps, base.MaxSteps = 25, 90
	// parameter changes during the history (a token and its feeder registered through the assets
	// precompile): the restarted node has to recover them from the stored recent parameters
	w := map[string]int{"regToken": 3}
	for k, v := range base.Gen.Weights {
		w[k] = v
	}
	base.Gen.Weights = w
	// two-signer price transactions stay out of these histories: when the second report of such a
	// transaction fails, the first stays in the oracle's memory (listed finding K10 of C13), which
	// a restart forgets - the divergence would be reported here without an oracle that could
	// tell it from anything else
	base.Gen.TwoSignerPct = 0
	base.Gen.SimPct = 10 // node-local simulations on the node that never stops; the restarted node never sees them
	registerWorldProp(&base)
}

func TestC14(t *testing.T) {
	const prop = "C14"
	p := worldProps[prop]
	defer finish(t, prop)
	st := getStats(prop)
	st.Rule = "rapid-generated oracle histories (as C12: signed price transactions, several feeders, validator-set changes) are recorded as raw blocks on a node that never stops and re-executed from genesis on a node that is restarted (application object discarded, all oracle process state reset, new application opened on the same database) after chosen heights; app hashes, transaction results and validator updates of all blocks must be identical. quick: 3 drawn restart heights per history; thorough: every single height of every history plus a drawn multi-restart set; " +
		"non-trivial = restart inside an open window, right after a window end, or within MaxNonce blocks after a validator-set change; distinct = (history hash, restart height)"
	thorough := os.Getenv("VERIF_TIER") == "thorough"
	if f := os.Getenv("VERIF_REPLAY"); f != "" {
		var cf CaseFile
		var ex recordedExtra
		b, _ := os.ReadFile(f)
		if json.Unmarshal(b, &cf) != nil {
			t.Fatalf("replay: cannot parse %s", f)
		}
		_ = json.Unmarshal(cf.Extra, &ex)
		lastCase = &cf
		m := recordHistory(t, p, cf.Config, func(m *Machine, i int) (Action, bool) {
			if i >= len(cf.Actions) {
				return Action{}, false
			}
			return cf.Actions[i], true
		})
		if m == nil {
			t.Fatalf("replay: history cannot be recorded")
		}
		if v := judgeRestarts(m, ex.Restarts); v != nil {
			t.Fatalf("VIOLATION %s", v.Error())
		}
		return
	}
	activeKnown[prop] = map[string]bool{}
	for _, kf := range loadKnown(prop) {
		var cf CaseFile
		var ex recordedExtra
		b, err := os.ReadFile(findingsDir() + "/" + kf.Replay)
		if err != nil || json.Unmarshal(b, &cf) != nil {
			continue
		}
		_ = json.Unmarshal(cf.Extra, &ex)
		m := recordHistory(t, p, cf.Config, func(m *Machine, i int) (Action, bool) {
			if i >= len(cf.Actions) {
				return Action{}, false
			}
			return cf.Actions[i], true
		})
		if m == nil {
			continue
		}
		if v := judgeRestarts(m, ex.Restarts); v != nil && strings.Contains(v.Error(), kf.ID) && strings.Contains(v.Error(), kf.Match) {
			activeKnown[prop][kf.Name()] = true
			fmt.Printf("KNOWN-FINDING: property=%s %s %s\n", prop, kf.Name(), kf.Text)
			statsMu.Lock()
			st.Known = append(st.Known, kf.Name())
			statsMu.Unlock()
		}
	}
	rapid.Check(t, func(rt *rapid.T) {
		cfg := p.Config(rt)
		n := rapid.IntRange(p.MinSteps, p.MaxSteps).Draw(rt, "steps")
		g := p.Gen
		if len(g.Tempos) > 0 {
			g.MaxDt = g.Tempos[uniform(rt, len(g.Tempos), "tempo")]
		}
		cf := &CaseFile{Property: prop, Config: cfg, Test: "TestC14"}
		lastCase = cf
		tail := p.Tail
		p2 := *p
		p2.Tail = nil
		m := recordHistory(rt, &p2, cfg, func(m *Machine, i int) (Action, bool) {
			if i >= n {
				return Action{}, false
			}
			return m.Draw(rt, &g), true
		})
		_ = tail
		if m == nil {
			statsMu.Lock()
			st.Aborted++
			statsMu.Unlock()
			return
		}
		cf.Actions = m.Log
		blocks := m.C.Blocks
		if len(blocks) < 3 {
			return
		}
		last := blocks[len(blocks)-1].Height
		var sets [][]int64
		if thorough {
			for h := int64(1); h < last; h++ {
				sets = append(sets, []int64{h})
			}
		} else {
			for i := 0; i < 3; i++ {
				sets = append(sets, []int64{int64(rapid.IntRange(1, int(last)-1).Draw(rt, "restartAt"))})
			}
		}
		// one multi-restart set
		var multi []int64
		for h := int64(1); h < last; h++ {
			if uniform(rt, 4, "multi") == 0 {
				multi = append(multi, h)
			}
		}
		if len(multi) > 1 {
			sets = append(sets, multi)
		}
		hist := shapeOf(m)
		if activeKnown[prop]["C14.I1.diverged/reopened-finalized-round"] {
			// exclusion by construction of the listed finding: drop restart heights that fall into
			// the window of an already finalized round (counted)
			for i, rs := range sets {
				var keep []int64
				for _, r := range rs {
					if reopenedRound(m, r) {
						statsMu.Lock()
						st.Excluded["restart-in-window-of-finalized-round"]++
						statsMu.Unlock()
						continue
					}
					keep = append(keep, r)
				}
				sets[i] = keep
			}
		}
		for _, rs := range sets {
			if len(rs) == 0 {
				continue
			}
			ex, _ := json.Marshal(recordedExtra{Restarts: rs})
			cf.Extra = ex
			if v := judgeRestarts(m, rs); v != nil {
				if excluded := c14Known(m, rs, v); excluded != "" {
					statsMu.Lock()
					st.Excluded[excluded]++
					statsMu.Unlock()
					continue
				}
				cf.Violation = v.Error()
				rt.Fatalf("VIOLATION %s\nhistory: %s", v.Error(), historyString(m))
			}
			statsMu.Lock()
			st.Evaluations++
			nt := false
			for _, r := range rs {
				for _, cl := range restartClasses(m, blocks, r) {
					st.Labels["restart:"+cl]++
					if cl == "mid-window" || cl == "window-just-ended" || cl == "after-validator-set-change" {
						nt = true
					}
				}
			}
			if len(rs) > 1 {
				st.Labels["multi-restart-sets"]++
			}
			if m.C.Simulated > 0 {
				st.Labels["history-with-node-local-simulations"]++
			}
			if nt {
				key := shortHash(hist + fmt.Sprint(rs))
				if len(st.NonTrivial) < 20000 {
					st.NonTrivial[key] = true
				}
				if len(st.Samples) < 2 {
					b, _ := json.Marshal(cf)
					st.Samples = append(st.Samples, b)
				}
			}
			statsMu.Unlock()
		}
	})
}

// reopenedRound: a restart at r falls into the window of a round that was already finalized by
// consensus (listed known finding: the recovery re-opens that round and carries the price
// forward a second time).
func reopenedRound(m *Machine, r int64) bool {
	o, ok := m.Inv[0].(*oracleInv)
	if !ok {
		return false
	}
	mn := uint64(m.W.Cfg.OracleMaxNonce)
	for _, f := range o.Finalized {
		hf, based := f[1], f[2]
		if hf <= uint64(r) && uint64(r) < based+mn {
			return true
		}
	}
	return false
}

// c14Known matches a divergence against the listed known findings of C14.
var c14Known = func(m *Machine, restarts []int64, v *Violation) string {
	if !activeKnown["C14"]["C14.I1.diverged/reopened-finalized-round"] {
		return ""
	}
	for _, r := range restarts {
		if reopenedRound(m, r) && strings.Contains(v.Msg, "Prices/value") {
			return "C14.I1.diverged/reopened-finalized-round"
		}
	}
	return ""
}
