package props

import (
	"encoding/json"
	"fmt"
	"os"
	"reflect"
	"strings"
	"testing"
	"time"

	"exoverif/sim"

	epochskeeper "github.com/ExocoreNetwork/exocore/x/epochs/keeper"
	epochstypes "github.com/ExocoreNetwork/exocore/x/epochs/types"
	dbm "github.com/cometbft/cometbft-db"
	"github.com/cometbft/cometbft/libs/log"
	tmproto "github.com/cometbft/cometbft/proto/tendermint/types"
	"github.com/cosmos/cosmos-sdk/store"
	storetypes "github.com/cosmos/cosmos-sdk/store/types"
	sdk "github.com/cosmos/cosmos-sdk/types"
	"pgregory.net/rapid"
)

// ---- C15: the epoch clock, keeper level (real keeper, own store, recording subscriber)

type epochEvent struct {
	Kind string // "end" | "start"
	ID   string
	N    int64
}

type recorderHooks struct{ events *[]epochEvent }

func (r recorderHooks) AfterEpochEnd(_ sdk.Context, id string, n int64) {
	*r.events = append(*r.events, epochEvent{"end", id, n})
}
func (r recorderHooks) BeforeEpochStart(_ sdk.Context, id string, n int64) {
	*r.events = append(*r.events, epochEvent{"start", id, n})
}

// epochIdent is one generated identifier (times in nanoseconds relative to genesis time).
type epochIdent struct {
	ID        string
	StartNs   int64 // start time - genesis time; ignored when ZeroStart
	ZeroStart bool
	DurNs     int64
	MidCount  int64 // > 0: already counting at genesis, current epoch = MidCount
}

type epochCase struct {
	Idents []epochIdent
	Steps  []int64 // block time increments in ns (>= 0)
}

type clockModel struct {
	started  bool
	n        int64
	start    time.Time
	curStart time.Time
	dur      time.Duration
}

func runEpochCase(c epochCase) (v *Violation, boundaryExact, bigGap bool) {
	key := storetypes.NewKVStoreKey(epochstypes.StoreKey)
	db := dbm.NewMemDB()
	cms := store.NewCommitMultiStore(db)
	cms.MountStoreWithDB(key, storetypes.StoreTypeIAVL, db)
	if err := cms.LoadLatestVersion(); err != nil {
		return violation("C15.I0.harness", "%v", err), false, false
	}
	k := epochskeeper.NewKeeper(encodingCodec(), key)
	var events []epochEvent
	k.SetHooks(recorderHooks{&events})
	g0 := sim.GenesisTime
	ctx := sdk.NewContext(cms, tmproto.Header{Height: 0, Time: g0}, false, log.NewNopLogger())
	models := map[string]*clockModel{}
	var gen []epochstypes.EpochInfo
	for _, id := range c.Idents {
		info := epochstypes.EpochInfo{Identifier: id.ID, Duration: time.Duration(id.DurNs)}
		m := &clockModel{dur: time.Duration(id.DurNs)}
		if id.ZeroStart {
			m.start = g0 // an unset start time means "the genesis block time"
		} else {
			info.StartTime = g0.Add(time.Duration(id.StartNs))
			m.start = info.StartTime
		}
		if id.MidCount > 0 && !id.ZeroStart {
			info.EpochCountingStarted = true
			info.CurrentEpoch = id.MidCount
			info.CurrentEpochStartTime = info.StartTime.Add(time.Duration(id.MidCount-1) * info.Duration)
			info.CurrentEpochStartHeight = 1
			m.started, m.n, m.curStart = true, id.MidCount, info.CurrentEpochStartTime
		}
		models[id.ID] = m
		gen = append(gen, info)
	}
	gs := epochstypes.NewGenesisState(gen)
	if err := gs.Validate(); err != nil {
		return violation("C15.I0.generator", "invalid genesis generated: %v", err), false, false
	}
	k.InitGenesis(ctx, *gs)
	t := g0
	for h, step := range c.Steps {
		t = t.Add(time.Duration(step))
		ctx = ctx.WithBlockHeight(int64(h + 1)).WithBlockTime(t)
		events = events[:0]
		k.BeginBlocker(ctx)
		// model
		want := map[string][]epochEvent{}
		for _, id := range c.Idents {
			m := models[id.ID]
			if t.Before(m.start) {
				continue
			}
			end := m.curStart.Add(m.dur)
			if m.started && t.Equal(end) {
				boundaryExact = true
			}
			if m.started && t.Sub(end) >= 2*m.dur {
				bigGap = true
			}
			switch {
			case !m.started:
				m.started, m.n, m.curStart = true, 1, m.start
				want[id.ID] = []epochEvent{{"start", id.ID, 1}}
			case t.After(end):
				want[id.ID] = []epochEvent{{"end", id.ID, m.n}, {"start", id.ID, m.n + 1}}
				m.n++
				m.curStart = end
			}
		}
		got := map[string][]epochEvent{}
		for _, e := range events {
			got[e.ID] = append(got[e.ID], e)
		}
		for _, id := range c.Idents {
			if fmt.Sprint(got[id.ID]) != fmt.Sprint(want[id.ID]) {
				return violation("C15.I2.notifications", "block %d (t = genesis+%s) identifier %s: notifications %v, expected %v", h+1, t.Sub(g0), id.ID, got[id.ID], want[id.ID]), boundaryExact, bigGap
			}
			info, found := k.GetEpochInfo(ctx, id.ID)
			m := models[id.ID]
			if !found {
				return violation("C15.I1.state", "identifier %s disappeared", id.ID), boundaryExact, bigGap
			}
			if info.EpochCountingStarted != m.started || (m.started && (info.CurrentEpoch != m.n || !info.CurrentEpochStartTime.Equal(m.curStart))) {
				return violation("C15.I1.state", "block %d (t = genesis+%s) identifier %s: number %d started %v current start genesis+%s, expected number %d started %v start genesis+%s", h+1, t.Sub(g0), id.ID, info.CurrentEpoch, info.EpochCountingStarted, info.CurrentEpochStartTime.Sub(g0), m.n, m.started, m.curStart.Sub(g0)), boundaryExact, bigGap
			}
			if m.started && !info.CurrentEpochStartTime.Equal(m.start.Add(time.Duration(m.n-1)*m.dur)) {
				return violation("C15.I1.start-formula", "identifier %s: epoch %d starts at genesis+%s, formula says genesis+%s", id.ID, m.n, info.CurrentEpochStartTime.Sub(g0), m.start.Add(time.Duration(m.n-1)*m.dur).Sub(g0)), boundaryExact, bigGap
			}
		}
		for id := range got {
			if _, ok := models[id]; !ok {
				return violation("C15.I2.notifications", "notification for unknown identifier %s", id), boundaryExact, bigGap
			}
		}
	}
	return nil, boundaryExact, bigGap
}

func drawEpochCase(t *rapid.T) epochCase {
	var c epochCase
	n := rapid.IntRange(1, 5).Draw(t, "nIdents")
	durs := []int64{1, 1e6, 1e9, 7e9, 60e9, 3600e9, 86400e9, 10 * 86400e9, 1500e6}
	for i := 0; i < n; i++ {
		id := epochIdent{ID: fmt.Sprintf("id%d", i), DurNs: durs[uniform(t, len(durs), "dur")]}
		if uniform(t, 4, "durexact") == 0 {
			id.DurNs = int64(rapid.IntRange(1, 100_000_000_000).Draw(t, "durns"))
		}
		switch uniform(t, 6, "startclass") {
		case 0:
			id.ZeroStart = true
		case 1:
			id.StartNs = 0
		case 2: // past
			id.StartNs = -int64(rapid.IntRange(1, 5_000_000_000_000).Draw(t, "past"))
		case 3: // future
			id.StartNs = int64(rapid.IntRange(1, 200_000_000_000).Draw(t, "future"))
		case 4: // past, a whole number of durations ago
			id.StartNs = -id.DurNs * int64(rapid.IntRange(1, 5).Draw(t, "kpast"))
		case 5: // mid-count
			id.MidCount = int64(rapid.IntRange(1, 1000).Draw(t, "mid"))
			id.StartNs = -(id.MidCount-1)*id.DurNs - int64(rapid.IntRange(0, int(minI64(id.DurNs, 1<<40))).Draw(t, "into"))
		}
		c.Idents = append(c.Idents, id)
	}
	steps := rapid.IntRange(1, 40).Draw(t, "nSteps")
	tNs := int64(0)
	for s := 0; s < steps; s++ {
		ref := c.Idents[uniform(t, len(c.Idents), "ref")]
		var d int64
		switch uniform(t, 7, "stepclass") {
		case 0:
			d = 0 // equal block times
		case 1:
			d = int64(rapid.IntRange(1, 10_000_000_000).Draw(t, "small"))
		case 2: // a fraction of the reference duration
			d = ref.DurNs / int64(rapid.IntRange(2, 9).Draw(t, "frac"))
		case 3: // exactly onto the next boundary of the reference identifier
			start := ref.StartNs
			if ref.ZeroStart {
				start = 0
			}
			if tNs >= start {
				k := (tNs-start)/ref.DurNs + 1
				d = start + k*ref.DurNs - tNs
			} else {
				d = start - tNs
			}
		case 4: // one nanosecond past a boundary
			start := ref.StartNs
			if ref.ZeroStart {
				start = 0
			}
			if tNs >= start {
				k := (tNs-start)/ref.DurNs + 1
				d = start + k*ref.DurNs - tNs + 1
			} else {
				d = start - tNs + 1
			}
		case 5: // multi-duration gap
			d = ref.DurNs * int64(rapid.IntRange(2, 9).Draw(t, "gapk"))
		case 6:
			d = ref.DurNs + int64(rapid.IntRange(0, 1000).Draw(t, "jit"))
		}
		if d < 0 || d > 400*86400e9 {
			d = 1
		}
		tNs += d
		c.Steps = append(c.Steps, d)
	}
	return c
}

func minI64(a, b int64) int64 {
	if a < b {
		return a
	}
	return b
}

func TestC15(t *testing.T) {
	const prop = "C15"
	defer finish(t, prop)
	st := getStats(prop)
	st.Rule = "rapid-generated epoch configurations (1-5 identifiers, durations 1ns-10d, start times unset/past/present/future/mid-count) and block-time sequences (equal times, sub-duration steps, steps exactly onto and 1ns past a boundary, multi-duration gaps) run through the real epochs keeper with a recording subscriber and compared with a clock model after every block; plus the subscriber order of the wired application; " +
		"non-trivial = a timeline containing a block exactly on a boundary and a gap of at least 3 durations; distinct = hash of the whole case"
	if f := os.Getenv("VERIF_REPLAY"); f != "" {
		var cf CaseFile
		var c epochCase
		b, _ := os.ReadFile(f)
		if json.Unmarshal(b, &cf) != nil || json.Unmarshal(cf.Extra, &c) != nil {
			t.Fatalf("replay: cannot parse %s", f)
		}
		lastCase = &cf
		if v, _, _ := runEpochCase(c); v != nil {
			t.Fatalf("VIOLATION %s", v.Error())
		}
		return
	}
	// app level: subscribers are wired in the order distribution, operator, dogfood, mint, AVS
	if v := checkEpochHookOrder(); v != nil {
		lastCase = &CaseFile{Property: prop, Test: "TestC15", Violation: v.Error()}
		t.Fatalf("VIOLATION %s", v.Error())
	}
	rapid.Check(t, func(rt *rapid.T) {
		c := drawEpochCase(rt)
		extra, _ := json.Marshal(c)
		cf := &CaseFile{Property: prop, Test: "TestC15", Extra: extra}
		lastCase = cf
		v, be, gap := runEpochCase(c)
		if v != nil {
			cf.Violation = v.Error()
			rt.Fatalf("VIOLATION %s", v.Error())
		}
		statsMu.Lock()
		st.Evaluations++
		if be {
			st.Labels["timeline-with-boundary-exact-block"]++
		}
		if gap {
			st.Labels["timeline-with-gap>=3-durations"]++
		}
		if be && gap {
			if len(st.NonTrivial) < 20000 {
				st.NonTrivial[shortHash(string(extra))] = true
			}
			if len(st.Samples) < 2 {
				st.Samples = append(st.Samples, extra)
			}
		}
		statsMu.Unlock()
	})
}

// checkEpochHookOrder inspects the hook list of the fully wired application.
func checkEpochHookOrder() *Violation {
	w, err := sim.BuildWorld(sim.DefaultConfig(1))
	if err != nil {
		return violation("C15.I0.harness", "%v", err)
	}
	c, err := sim.NewChain(w)
	if err != nil {
		return violation("C15.I0.harness", "%v", err)
	}
	hooks, ok := c.App.EpochsKeeper.Hooks().(epochstypes.MultiEpochHooks)
	if !ok {
		return violation("C15.I3.subscriber-order", "epoch hooks are %T, not a MultiEpochHooks list", c.App.EpochsKeeper.Hooks())
	}
	want := []string{"feedistribution", "operator", "dogfood", "exomint", "avs"}
	var got []string
	for _, h := range hooks {
		got = append(got, reflect.TypeOf(h).PkgPath())
	}
	if len(got) != len(want) {
		return violation("C15.I3.subscriber-order", "subscribers %v, expected %v", got, want)
	}
	for i := range want {
		if !strings.Contains(got[i], "/x/"+want[i]+"/") {
			return violation("C15.I3.subscriber-order", "subscriber %d is %s, expected the %s module (order distribution, operator, dogfood, mint, AVS)", i, got[i], want[i])
		}
	}
	return nil
}
