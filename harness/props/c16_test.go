package props

import (
	"testing"

	"exoverif/sim"

	"github.com/ExocoreNetwork/exocore/utils"
	"pgregory.net/rapid"
)

func init() {
	w := map[string]int{
		"nextBlock": 30, "depositLST": 6, "delegate": 10, "undelegate": 16, "nativeDelegate": 5, "nativeUndelegate": 6,
		"optOut": 5, "optIn": 5, "setKey": 7, "slash": 1, "jail": 1, "unjail": 1, "depositNST": 1, "setUnbonding": 3,
	}
	registerWorldProp(&WorldProp{
		ID: "C16",
		Rule: "rapid histories of the world machine over many dogfood epochs (minute identifier, block steps from seconds to multi-epoch gaps) weighted to undelegations, opt-outs and key replacements; " +
			"non-trivial = at least 3 queue entries of at least 2 kinds (hold / opt-out / key pruning), registered in at least 2 different epochs, were released; distinct = hash of the (kind, outcome) sequence",
		Gen:      GenOpts{Weights: w, HostilePct: 3, ExtremePct: 0, Anchor: true, Tempos: []int{8, 25, 70}, CapBits: 90, ClampBits: 40},
		MinSteps: 30,
		MaxSteps: 90,
		Config: func(t *rapid.T) sim.Config {
			cfg := worldConfig(t)
			if uniform(t, 2, "testnet?") == 0 {
				// on testnet chain ids anybody may update the dogfood parameters: the unbonding
				// period changes in the middle of the histories
				cfg.ChainID = utils.TestnetChainID + "-1"
			}
			return cfg
		},
		Invariants: func() []Invariant { return []Invariant{&queuesInv{}} },
		Tail: func(m *Machine) []Action {
			out := []Action{}
			for i := 0; i < 6; i++ {
				out = append(out, Action{Kind: "nextBlock", Dt: 61})
			}
			return out
		},
		NonTrivial: func(m *Machine, invs []Invariant) (bool, []string) {
			q := invs[0].(*queuesInv)
			for k, n := range q.kindsReleased {
				m.Labels["released:"+k] += n
			}
			m.Labels["holds-placed"] += q.heldPlaced
			m.Labels["undelegations-not-held"] += q.notHeld
			m.Labels["released-after-the-unbonding-period-was-changed"] += q.releasedUnderChangedN
			return q.NonTrivial()
		},
	})
}

func TestC16(t *testing.T) { runWorldProp(t, "C16") }
