package props

import (
	"strings"
	"testing"

	"exoverif/sim"

	"github.com/ExocoreNetwork/exocore/utils"
	"pgregory.net/rapid"
)

func init() {
	w := map[string]int{
		"nextBlock": 30, "depositLST": 6, "delegate": 10, "undelegate": 16, "nativeDelegate": 5, "nativeUndelegate": 6,
		"optOut": 5, "optIn": 5, "setKey": 7, "slash": 1, "jail": 1, "unjail": 1, "depositNST": 1, "setUnbonding": 3,
	}
	registerWorldProp(&WorldProp{
		ID: "C16",
		Rule: "rapid histories of the world machine over many dogfood epochs (minute identifier, block steps from seconds to multi-epoch gaps) weighted to undelegations, opt-outs and key replacements; " +
			"non-trivial = at least 3 queue entries of at least 2 kinds (hold / opt-out / key pruning), registered in at least 2 different epochs, were released; distinct = hash of the (kind, outcome) sequence",
		Gen:      GenOpts{Weights: w, HostilePct: 3, ExtremePct: 0, Anchor: true, Tempos: []int{8, 25, 70}, CapBits: 90, ClampBits: 40, Dynamic: queuesDynamic},
		MinSteps: 30,
		MaxSteps: 90,
		Config: func(t *rapid.T) sim.Config {
			cfg := worldConfig(t)
			// the unbonding period the chain starts with (1..4 epochs)
			cfg.EpochsUntilUnbonded = uint32(1 + uniform(t, 4, "unbonding-epochs"))
			if uniform(t, 2, "testnet?") == 0 {
				// on testnet chain ids anybody may update the dogfood parameters: the unbonding
				// period changes in the middle of the histories
				cfg.ChainID = utils.TestnetChainID + "-1"
			}
			return cfg
		},
		Invariants: func() []Invariant { return []Invariant{&queuesInv{}} },
		Tail: func(m *Machine) []Action {
			out := []Action{}
			for i := 0; i < 6; i++ {
				out = append(out, Action{Kind: "nextBlock", Dt: 61})
			}
			return out
		},
		NonTrivial: func(m *Machine, invs []Invariant) (bool, []string) {
			q := invs[0].(*queuesInv)
			for k, n := range q.kindsReleased {
				m.Labels["released:"+k] += n
			}
			m.Labels["holds-placed"] += q.heldPlaced
			m.Labels["undelegations-not-held"] += q.notHeld
			m.Labels["released-after-the-unbonding-period-was-changed"] += q.releasedUnderChangedN
			m.Labels["holds-on-opting-out-operator-whose-opt-out-was-registered-under-a-longer-period"] += q.heldOptOutLongerN
			return q.NonTrivial()
		},
	})
}

func TestC16(t *testing.T) { runWorldProp(t, "C16") }

// queuesDynamic: while an operator is opting out on a chain whose unbonding period anybody may
// change (testnet chain ids), changes of that period and undelegations become more likely, so
// that "an undelegation from an operator that is opting out matures together with the opt-out"
// is also exercised with an opt-out registered under another period than the current one (a
// conjunction of three actions within a few blocks that the static weights almost never produce).
func queuesDynamic(m *Machine, w map[string]int) map[string]int {
	if w["setUnbonding"] == 0 || !strings.HasPrefix(m.C.W.Cfg.ChainID, utils.TestnetChainID) {
		return w
	}
	ctx := m.C.Ctx()
	chainID := m.chainIDNoRev()
	opting := false
	for _, o := range m.W.Operators {
		if m.C.App.OperatorKeeper.IsOperatorRemovingKeyFromChainID(ctx, o.Acc(), chainID) {
			opting = true
			break
		}
	}
	if !opting {
		return w
	}
	out := map[string]int{}
	for k, v := range w {
		out[k] = v
	}
	out["setUnbonding"] = w["setUnbonding"] * 5
	out["undelegate"] = w["undelegate"] * 2
	return out
}
