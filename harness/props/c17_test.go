package props

import (
	"testing"

	"exoverif/sim"

	epochstypes "github.com/ExocoreNetwork/exocore/x/epochs/types"
	"pgregory.net/rapid"
)

func feesConfig(t *rapid.T) sim.Config {
	cfg := worldConfig(t)
	cfg.NumValidators = rapid.IntRange(1, cfg.NumOperators).Draw(t, "nValsF")
	if cfg.NumValidators < 2 && cfg.NumOperators >= 2 && uniform(t, 3, "force2") > 0 {
		cfg.NumValidators = 2
	}
	for i := 0; i < cfg.NumValidators; i++ {
		if cfg.SelfStake[i] < cfg.MinSelfDelegation+1 {
			cfg.SelfStake[i] = cfg.MinSelfDelegation + 1
		}
	}
	if int(cfg.MaxValidators) < cfg.NumValidators {
		cfg.MaxValidators = uint32(cfg.NumValidators)
	}
	rates := []string{"0", "1", "0.1", "0.123456789", "0.5", "0.999999999999999999", "0.000000000000000001"}
	cfg.Commission = nil
	for i := 0; i < cfg.NumOperators; i++ {
		cfg.Commission = append(cfg.Commission, rates[uniform(t, len(rates), "rate")])
	}
	cfg.CommunityTax = []string{"0", "0.02", "0.5", "1", "0.333333333333333333"}[uniform(t, 5, "tax")]
	cfg.DistrEpoch = epochstypes.MinuteEpochID
	cfg.MintEpoch = []string{epochstypes.MinuteEpochID, epochstypes.HourEpochID, epochstypes.DayEpochID}[uniform(t, 3, "mintEpoch")]
	cfg.MintReward = []string{"0", "1", "20000000000000000000", "1000000000000000000000000000000", "7"}[uniform(t, 5, "reward")]
	return cfg
}

func init() {
	w := map[string]int{
		"nextBlock": 30, "payFee": 14, "depositLST": 8, "delegate": 14, "undelegate": 6, "nativeDelegate": 3,
		"associate": 3, "optIn": 3, "optOut": 2, "slash": 2, "setKey": 1,
		"ethTx": 6, // Ethereum transactions: their fees reach the fee collector through the EVM's own deduction and refund
	}
	registerWorldProp(&WorldProp{
		ID: "C17",
		Rule: "rapid histories over distribution (minute) and mint (minute/hour/day) epochs with generated fee income (real transaction fees of any size), validator sets and powers, commission rates 0..100%, community tax 0..100%, several stakers per operator, epoch rewards 0..10^30; a fee book is recomputed from raw store entries after every step; " +
			"non-trivial = a distribution-epoch end with fees > 0, at least 2 validators, an operator with commission strictly between 0 and 1 and booked staker rewards; distinct = hash of the (kind, outcome) sequence",
		Gen:        GenOpts{Weights: w, HostilePct: 2, ExtremePct: 0, Anchor: true, Tempos: []int{20, 45, 90}, CapBits: 40, ClampBits: 40},
		MinSteps:   25,
		MaxSteps:   80,
		Config:     feesConfig,
		Invariants: func() []Invariant { return []Invariant{&feesInv{}} },
		Tail: func(m *Machine) []Action {
			return []Action{{Kind: "nextBlock", Dt: 61}, {Kind: "nextBlock", Dt: 61}, {Kind: "nextBlock", Dt: 3601}, {Kind: "nextBlock", Dt: 61}}
		},
		NonTrivial: func(m *Machine, invs []Invariant) (bool, []string) {
			f := invs[0].(*feesInv)
			m.Labels["distribution-epoch-ends-with-fees"] += f.distrWithFees
			m.Labels["distribution-epoch-ends-zero-power"] += f.distrZeroPower
			m.Labels["distribution-epoch-ends-zero-fees"] += f.distrZeroFees
			m.Labels["mint-epoch-ends"] += f.mints
			return f.rich, nil
		},
	})
}

func TestC17(t *testing.T) { runWorldProp(t, "C17") }

// the same fee book over operators that are opted into several AVSs with several assets (the
// per-staker split walks every (AVS, asset) pair of an operator)
func init() {
	base := *worldProps["C17"]
	base.Name = "C17AVS"
	w := map[string]int{
		"nextBlock": 28, "payFee": 12, "depositLST": 8, "delegate": 14, "undelegate": 5, "associate": 3, "optIn": 2, "optOut": 1,
		"avsRegister": 7, "avsUpdate": 2, "avsOptIn": 10, "avsOptOut": 2, "avsDeregister": 1, "slash": 1,
	}
	base.Gen = GenOpts{Weights: w, HostilePct: 2, ExtremePct: 0, Anchor: true, Tempos: []int{20, 45, 90}, CapBits: 40, ClampBits: 40}
	base.Config = func(t *rapid.T) sim.Config {
		cfg := feesConfig(t)
		cfg.NumAVS = rapid.IntRange(2, 3).Draw(t, "nAVSF")
		return cfg
	}
	registerWorldProp(&base)
}

func TestC17AVS(t *testing.T) { runWorldProp(t, "C17AVS") }
