package props

import (
	"bytes"
	"encoding/binary"
	"encoding/json"
	"fmt"
	"os"
	"strconv"
	"strings"
	"testing"
	"time"

	"exoverif/sim"

	exocoreapp "github.com/ExocoreNetwork/exocore/app"
	keytypes "github.com/ExocoreNetwork/exocore/types/keys"
	avstypes "github.com/ExocoreNetwork/exocore/x/avs/types"
	epochstypes "github.com/ExocoreNetwork/exocore/x/epochs/types"
	operatortypes "github.com/ExocoreNetwork/exocore/x/operator/types"
	"github.com/ExocoreNetwork/exocore/x/oracle"
	tmproto "github.com/cometbft/cometbft/proto/tendermint/types"
	sdk "github.com/cosmos/cosmos-sdk/types"
	"github.com/cosmos/cosmos-sdk/types/module"
	"pgregory.net/rapid"
)

// C18: export -> validate -> InitChain -> identical stores -> identical re-export -> identical
// behaviour afterwards, for the listed modules.
var c18Modules = []string{"assets", "delegation", "operator", "dogfood", "epochs", "oracle", "exomint", "feedistribution"}

type c18Extra struct {
	After []int `json:"after"` // seconds per follow-up block
}

func c18Judge(m *Machine, after []int) *Violation {
	c1 := m.C
	exp, err := c1.App.ExportAppStateAndValidators(false, nil, nil)
	if err != nil {
		return violation("C18.I1.export-failed", "%v", err)
	}
	var state map[string]json.RawMessage
	if err := json.Unmarshal(exp.AppState, &state); err != nil {
		return violation("C18.I1.export-failed", "%v", err)
	}
	// (a) the exported genesis of every listed module validates
	for _, mod := range c18Modules {
		var verr error
		func() {
			defer func() {
				if r := recover(); r != nil {
					verr = fmt.Errorf("panic: %v", r)
				}
			}()
			gb, ok := exocoreapp.ModuleBasics[mod].(module.HasGenesisBasics)
			if !ok {
				verr = fmt.Errorf("module %s has no genesis validation", mod)
				return
			}
			verr = gb.ValidateGenesis(sim.Codec(), sim.TxConfig(), state[mod])
		}()
		if verr != nil {
			return violation("C18.I1.validate."+mod, "exported %s genesis at height %d does not validate: %v", mod, c1.Height, verr)
		}
	}
	// (b) a fresh chain initialised from it has byte-identical stores for the listed modules
	mem1 := sim.OracleMemDumpNoNonce()
	// (for every second export height the new chain carries the next revision number in its
	// chain id, as after an upgrade that restarts the chain from an exported genesis: module state
	// is keyed by the chain id without revision and must not depend on it)
	w2 := *m.W
	if exp.Height%2 == 0 {
		if i := strings.LastIndex(w2.Cfg.ChainID, "-"); i > 0 {
			if rev, err := strconv.Atoi(w2.Cfg.ChainID[i+1:]); err == nil {
				w2.Cfg.ChainID = fmt.Sprintf("%s-%d", w2.Cfg.ChainID[:i], rev+1)
				c18RevisionBumps++
			}
		}
	}
	c2, err := sim.NewChainFromStateAt(&w2, state, exp.Height, c1.Time)
	if err != nil {
		return violation("C18.I2.import-failed", "InitChain from the exported genesis of height %d failed: %v", c1.Height, err)
	}
	c2.AppHash = c1.AppHash
	hdr := tmproto.Header{ChainID: w2.Cfg.ChainID, Height: exp.Height, Time: c1.Time}
	ctx2 := c2.App.BaseApp.NewContext(false, hdr)
	// chain 1 has to be re-opened to be observed (only one live app per process): reload it
	s2 := c2.Snap(ctx2, c18Modules...)
	state2, err := exportListed(c2, ctx2)
	if err != nil {
		return violation("C18.I3.reexport-failed", "%v", err)
	}
	state1, err := exportListed(c1, c1.CommittedCtx())
	if err != nil {
		return violation("C18.I1.export-failed", "%v", err)
	}
	s1 := c1.Snap(c1.CommittedCtx(), c18Modules...)
	c18StaleReverseLookup = makeStaleReverseLookup(c1)
	c18ValsetKeyReplacement = makeValsetKeyReplacement(c1)
	c18UnexportedAVS = makeUnexportedAVS(m)
	c18ValsetExcluded = false
	var allStoreViolations *Violation
	for _, mod := range c18Modules {
		d0 := sim.Diff(sim.Snapshot{mod: filterDerived(mod, s1[mod])}, sim.Snapshot{mod: filterDerived(mod, s2[mod])})
		var d []sim.DiffEntry
		for _, e := range d0 {
			if name := c18KeyKnown(mod, e); name != "" && !c18NoExclusions {
				st := getStats("C18")
				statsMu.Lock()
				st.Excluded[name]++
				statsMu.Unlock()
				continue
			}
			d = append(d, e)
		}
		if len(d) > 0 {
			msg := ""
			for i, e := range d {
				if i >= 3 {
					msg += fmt.Sprintf(" ... (%d keys)", len(d))
					break
				}
				msg += "\n      original vs re-imported: " + e.String()
			}
			v := violation("C18.I2.store."+mod, "store of %s differs after export at height %d and InitChain:%s", mod, c1.Height, msg)
			if !c18NoExclusions {
				return v
			}
			// re-running the saved input of a listed finding: report every differing module
			if allStoreViolations == nil {
				allStoreViolations = v
			} else {
				allStoreViolations.Msg += "\n" + v.Error()
			}
		}
	}
	if allStoreViolations != nil && allStoreViolations.Msg != "" && !c18NoExclusions {
		return allStoreViolations
	}
	// (c) exporting again yields the same document
	for _, mod := range c18Modules {
		if mod == "dogfood" && c18ValsetExcluded {
			continue // listed finding: the validator list is exported with other keys, in another order
		}
		if string(state1[mod]) != string(state2[mod]) {
			v := violation("C18.I3.reexport."+mod, "second export of %s differs from the first: %s", mod, firstJSONDiff(state1[mod], state2[mod]))
			if !c18NoExclusions {
				return v
			}
			allStoreViolations = mergeViolation(allStoreViolations, v)
		}
	}
	_ = mem1
	if c18ValsetExcluded {
		return allStoreViolations
	}
	// (d) both chains behave alike afterwards. Only one application can be live per process
	// (oracle singletons), so the original chain is replayed block by block with a restart-like
	// switch: run the follow-up blocks on the re-imported chain first, then on the original.
	type blockObs struct {
		snap    sim.Snapshot
		updates string
		halted  string
	}
	run := func(c *sim.Chain, first bool) []blockObs {
		var out []blockObs
		for i, dt := range after {
			if first && i == 0 && !c.InBlock {
				// nothing
			}
			c.BeginBlock(time.Duration(dt)*time.Second, nil)
			c.EndBlock()
			c.Commit()
			o := blockObs{}
			if c.Halted != nil {
				o.halted = c.Halted.Error()
				out = append(out, o)
				break
			}
			snap := c.Snap(c.CommittedCtx(), c18Modules...)
			snap["dogfood"] = filterDerived("dogfood", snap["dogfood"])
			snap["delegation"] = filterDerived("delegation", snap["delegation"])
			o.snap = snap
			for _, u := range c.LastEndBlock.ValidatorUpdates {
				bz, _ := u.Marshal()
				o.updates += fmt.Sprintf("%x|", bz)
			}
			out = append(out, o)
		}
		return out
	}
	obs2 := run(c2, true)
	// switch back to the original chain: its in-memory oracle state must be rebuilt from its store
	if err := c1.Restart(); err != nil {
		return violation("C18.I0.harness", "cannot re-open the original chain: %v", err)
	}
	obs1 := run(c1, false)
	for i := range obs1 {
		if i >= len(obs2) {
			break
		}
		if obs1[i].halted != "" || obs2[i].halted != "" {
			if obs1[i].halted != obs2[i].halted {
				return mergeViolation(allStoreViolations, violation("C18.I4.behaviour", "block %d after the export: halted %q vs %q", i+1, obs1[i].halted, obs2[i].halted))
			}
			break
		}
		if obs1[i].updates != obs2[i].updates {
			return mergeViolation(allStoreViolations, violation("C18.I4.behaviour.validator-updates", "block %d after the export (height %d): the original chain returns validator updates %s, the re-imported chain %s", i+1, exp.Height+int64(i), obs1[i].updates, obs2[i].updates))
		}
		for _, mod := range c18Modules {
			for _, e := range sim.Diff(sim.Snapshot{mod: obs1[i].snap[mod]}, sim.Snapshot{mod: obs2[i].snap[mod]}) {
				if name := c18KeyKnown(mod, e); name != "" && !c18NoExclusions {
					st := getStats("C18")
					statsMu.Lock()
					st.Excluded[name]++
					statsMu.Unlock()
					continue
				}
				v := violation("C18.I4.behaviour."+mod, "block %d after the export (height %d): original and re-imported chain differ: %s", i+1, exp.Height+int64(i), e.String())
				if !c18NoExclusions {
					return v
				}
				// re-running the saved input of a listed finding: report every differing module once
				if allStoreViolations == nil || !strings.Contains(allStoreViolations.Error(), "C18.I4.behaviour."+mod) {
					allStoreViolations = mergeViolation(allStoreViolations, v)
				}
				break
			}
		}
	}
	return allStoreViolations
}

// mergeViolation appends v to the violations collected so far (re-runs of saved inputs of listed
// findings report everything they see; a search run returns at the first violation, where
// acc is nil).
func mergeViolation(acc, v *Violation) *Violation {
	if acc == nil {
		return v
	}
	acc.Msg += "\n" + v.Error()
	return acc
}

// exportListed exports the listed modules through their own ExportGenesis, on any context (the
// application-level export reads the check state, which is empty right after InitChain).
func exportListed(c *sim.Chain, ctx sdk.Context) (out map[string]json.RawMessage, err error) {
	defer func() {
		if r := recover(); r != nil {
			err = fmt.Errorf("panic during export: %v", r)
		}
	}()
	cdc := sim.Codec()
	out = map[string]json.RawMessage{
		"assets":          cdc.MustMarshalJSON(c.App.AssetsKeeper.ExportGenesis(ctx)),
		"delegation":      cdc.MustMarshalJSON(c.App.DelegationKeeper.ExportGenesis(ctx)),
		"operator":        cdc.MustMarshalJSON(c.App.OperatorKeeper.ExportGenesis(ctx)),
		"dogfood":         cdc.MustMarshalJSON(c.App.StakingKeeper.ExportGenesis(ctx)),
		"epochs":          cdc.MustMarshalJSON(c.App.EpochsKeeper.ExportGenesis(ctx)),
		"oracle":          cdc.MustMarshalJSON(oracle.ExportGenesis(ctx, c.App.OracleKeeper)),
		"exomint":         cdc.MustMarshalJSON(c.App.ExomintKeeper.ExportGenesis(ctx)),
		"feedistribution": cdc.MustMarshalJSON(c.App.DistrKeeper.ExportGenesis(ctx)),
	}
	return out, nil
}

// filterDerived drops store entries that are per-height caches rather than module state: the
// dogfood module's historical header info (prefix 12, kept for IBC light clients exactly like
// the SDK staking module's, which does not export it either).
func filterDerived(mod string, kvs []sim.KVPair) []sim.KVPair {
	if mod == "delegation" {
		// a hold count of zero and no hold count entry mean the same
		var out []sim.KVPair
		for _, kv := range kvs {
			if len(kv.Key) > 0 && kv.Key[0] == 6 && allZero(kv.Value) {
				continue
			}
			out = append(out, kv)
		}
		return out
	}
	if mod != "dogfood" {
		return kvs
	}
	var out []sim.KVPair
	for _, kv := range kvs {
		if len(kv.Key) > 0 && (kv.Key[0] == 12 || kv.Key[0] == 15) {
			// 12: historical header info; 15: the validator updates of the last EndBlock (rewritten
			// by every EndBlock before anybody reads it)
			continue
		}
		out = append(out, kv)
	}
	return out
}

func b2i(b bool) int {
	if b {
		return 1
	}
	return 0
}

func allZero(b []byte) bool {
	for _, x := range b {
		if x != 0 {
			return false
		}
	}
	return true
}

func firstJSONDiff(a, b json.RawMessage) string {
	var x, y map[string]json.RawMessage
	if json.Unmarshal(a, &x) != nil || json.Unmarshal(b, &y) != nil {
		return "(not objects)"
	}
	for _, k := range sortedKeys(x) {
		if string(x[k]) != string(y[k]) {
			var xs, ys []json.RawMessage
			if json.Unmarshal(x[k], &xs) == nil && json.Unmarshal(y[k], &ys) == nil {
				if len(xs) != len(ys) {
					return fmt.Sprintf("field %q: %d vs %d elements; first %.600s  vs  second %.600s", k, len(xs), len(ys), x[k], y[k])
				}
				for i := range xs {
					if string(xs[i]) != string(ys[i]) {
						return fmt.Sprintf("field %q element %d: %.400s  vs  %.400s", k, i, xs[i], ys[i])
					}
				}
			}
			return fmt.Sprintf("field %q: %.300s  vs  %.300s", k, x[k], y[k])
		}
	}
	return "(extra fields)"
}

func init() {
	w := determinismWeights()
	w["evidence"], w["price"], w["setKey"], w["optOut"], w["undelegate"], w["nstUpdate"], w["slash"] = 0, 18, 5, 5, 10, 2, 2
	registerWorldProp(&WorldProp{
		ID: "C18", Name: "C18",
		Config:     determinismConfig,
		Gen:        GenOpts{Weights: w, HostilePct: 4, ExtremePct: 0, Anchor: true, Tempos: []int{4, 15, 40}, CapBits: 40, ClampBits: 40},
		MinSteps:   20,
		MaxSteps:   90,
		Invariants: func() []Invariant { return nil },
	})
	wa := map[string]int{}
	for k, v := range w {
		wa[k] = v
	}
	for k, v := range map[string]int{"avsRegister": 6, "avsOptIn": 9, "avsOptOut": 2, "avsUpdate": 2, "price": 8} {
		wa[k] = v
	}
	registerWorldProp(&WorldProp{
		ID: "C18", Name: "C18AVS",
		Config: func(t *rapid.T) sim.Config {
			cfg := determinismConfig(t)
			cfg.NumAVS = 1 + uniform(t, 2, "nAVS18")
			cfg.ExtraEpochs = []epochstypes.EpochInfo{epochstypes.NewGenesisEpochInfo("fast", 20*time.Second)}
			return cfg
		},
		Gen:        GenOpts{Weights: wa, HostilePct: 4, ExtremePct: 0, Anchor: true, Tempos: []int{4, 15, 40}, CapBits: 40, ClampBits: 40, Dynamic: avs18Dynamic},
		MinSteps:   20,
		MaxSteps:   90,
		Invariants: func() []Invariant { return nil },
	})
}

// avs18Dynamic: register an AVS early so that the export sees opted-in operators
func avs18Dynamic(m *Machine, w map[string]int) map[string]int {
	out := map[string]int{}
	for k, v := range w {
		out[k] = v
	}
	if len(m.avsView().avs) == 0 {
		out["avsRegister"] *= 5
	}
	return out
}

// a third variant: registrations (client chains, tokens with their oracle feeders, token
// metadata updates), downtime jailing through x/slashing and unjailing before the export
func init() {
	base := *worldProps["C18"]
	base.Name = "C18Reg"
	w := map[string]int{}
	for k, v := range base.Gen.Weights {
		w[k] = v
	}
	for k, v := range map[string]int{"regToken": 8, "regChain": 5, "updToken": 3, "msgUnjail": 3, "regOperator": 2, "depositTok": 6} {
		w[k] = v
	}
	base.Gen.Weights = w
	base.Gen.DowntimePct = 15
	base.Gen.WideChains = true
	cfgOf := base.Config
	base.Config = func(t *rapid.T) sim.Config {
		cfg := cfgOf(t)
		cfg.Slashing = &sim.SlashingCfg{Window: 4, MinSigned: "0.5", JailSeconds: 10, FractionDowntime: "0.01"}
		return cfg
	}
	registerWorldProp(&base)
}

func TestC18Reg(t *testing.T) { runC18(t, "C18Reg", "TestC18Reg") }

func TestC18(t *testing.T) { runC18(t, "C18", "TestC18") }

// the same round trip over histories with further AVSs registered through the precompile and
// operators opted into them (the states of C05's histories)
func TestC18AVS(t *testing.T) { runC18(t, "C18AVS", "TestC18AVS") }

func runC18(t *testing.T, propName, testName string) {
	const prop = "C18"
	p := worldProps[propName]
	defer finish(t, prop)
	st := getStats(prop)
	st.Rule = "rapid-generated histories (restaking, key management, oracle rounds, fees) are stopped at an arbitrary height; the exported genesis of assets, delegation, operator, dogfood, epochs, oracle, exomint and feedistribution must validate, a fresh chain initialised from it must have byte-identical stores for these modules, export again the same document, and behave identically over the following blocks (store digests and validator updates per block until queues drain); " +
		"non-trivial = export taken with at least two of: a pending undelegation under hold, a pending opt-out or key replacement, an open oracle round; distinct = hash of the (kind, outcome) sequence"
	if f := os.Getenv("VERIF_REPLAY"); f != "" {
		var cf CaseFile
		var ex c18Extra
		b, _ := os.ReadFile(f)
		if json.Unmarshal(b, &cf) != nil {
			t.Fatalf("replay: cannot parse %s", f)
		}
		_ = json.Unmarshal(cf.Extra, &ex)
		lastCase = &cf
		m := recordHistory(t, p, cf.Config, func(m *Machine, i int) (Action, bool) {
			if i >= len(cf.Actions) {
				return Action{}, false
			}
			return cf.Actions[i], true
		})
		if m == nil {
			t.Fatalf("replay: history cannot be executed")
		}
		if v := c18Judge(m, ex.After); v != nil {
			t.Fatalf("VIOLATION %s", v.Error())
		}
		return
	}
	replayKnownGeneric(t, prop, func(cf *CaseFile) *Violation {
		c18NoExclusions = true
		defer func() { c18NoExclusions = false }()
		var ex c18Extra
		_ = json.Unmarshal(cf.Extra, &ex)
		m := recordHistory(t, p, cf.Config, func(m *Machine, i int) (Action, bool) {
			if i >= len(cf.Actions) {
				return Action{}, false
			}
			return cf.Actions[i], true
		})
		if m == nil {
			return nil
		}
		return c18Judge(m, ex.After)
	})
	rapid.Check(t, func(rt *rapid.T) {
		cfg := p.Config(rt)
		n := rapid.IntRange(p.MinSteps, p.MaxSteps).Draw(rt, "steps")
		g := p.Gen
		g.MaxDt = g.Tempos[uniform(rt, len(g.Tempos), "tempo")]
		cf := &CaseFile{Property: prop, Config: cfg, Test: testName}
		lastCase = cf
		m := recordHistory(rt, p, cfg, func(m *Machine, i int) (Action, bool) {
			if i >= n {
				return Action{}, false
			}
			return m.Draw(rt, &g), true
		})
		if m == nil {
			statsMu.Lock()
			st.Aborted++
			statsMu.Unlock()
			return
		}
		cf.Actions = m.Log
		var after []int
		for i := 0; i < 16; i++ {
			after = append(after, []int{2, 7, 31, 61, 61, 13}[uniform(rt, 6, "afterDt")])
		}
		ex, _ := json.Marshal(c18Extra{After: after})
		cf.Extra = ex
		// classification before judging (the judge consumes the chain)
		pendingHold, pendingQueue, openRound := false, false, false
		if v, err := Observe(m.C); err == nil {
			for _, u := range v.Undelegations {
				if u.Hold > 0 {
					pendingHold = true
				}
			}
		}
		df := observeDogfood(m)
		for _, o := range df.Ops {
			if o.Removing || o.HasPrev {
				pendingQueue = true
			}
		}
		if o, ok := m.Inv[0].(*oracleInv); ok {
			for _, r := range o.rounds {
				if r.open {
					openRound = true
				}
			}
		}
		regAVS, optedAVS := 0, 0
		for _, a := range m.avsView().avs {
			regAVS++
			if ops, err := m.C.App.OperatorKeeper.GetOptedInOperatorListByAVS(m.C.Ctx(), a.AvsAddress); err == nil {
				optedAVS += len(ops)
			}
		}
		if v := c18Judge(m, after); v != nil {
			// the listed findings are excluded key by key inside the judge: whatever it still
			// reports is not one of them
			cf.Violation = v.Error()
			rt.Fatalf("VIOLATION %s\nhistory: %s", v.Error(), historyString(m))
		}
		statsMu.Lock()
		st.Evaluations++
		if pendingHold {
			st.Labels["export-with-held-undelegation"]++
		}
		if pendingQueue {
			st.Labels["export-with-pending-optout-or-pruning"]++
		}
		if openRound {
			st.Labels["export-with-open-oracle-round"]++
		}
		st.Extra["re-imports-under-the-next-chain-id-revision"] = int64(c18RevisionBumps)
		if regAVS > 0 {
			st.Labels["export-with-avs-registered-through-precompile"]++
		}
		wideTok, tokDeposit, tokDelegated, nstNew := false, false, false, false
		for i, a := range m.Log {
			if i < len(m.Outs) && m.Outs[i].OK {
				if a.Kind == "regToken" && a.Lz >= 103 {
					wideTok = true
				}
				if a.Kind == "depositTok" {
					tokDeposit = true
					if a.Mode == 1 {
						tokDelegated = true
					}
					if a.Neg && a.Mode == 0 {
						nstNew = true
					}
				}
			}
		}
		if wideTok {
			st.Labels["export-with-token-registered-on-a-chain-added-during-the-history"]++
		}
		if tokDeposit {
			st.Labels["export-with-deposit-of-a-token-registered-during-the-history"]++
		}
		if nstNew {
			st.Labels["export-with-native-restaking-deposit-on-a-chain-added-during-the-history"]++
		}
		if tokDelegated {
			st.Labels["export-with-delegation-of-a-token-registered-during-the-history"]++
		}
		if optedAVS > 0 {
			st.Labels["export-with-operator-opted-into-registered-avs"]++
		}
		if b2i(pendingHold)+b2i(pendingQueue)+b2i(openRound) >= 2 {
			st.NonTrivial[shapeOf(m)] = true
			if len(st.Samples) < 2 {
				b, _ := json.Marshal(cf)
				st.Samples = append(st.Samples, b)
			}
		}
		statsMu.Unlock()
	})
}

// c18RevisionBumps counts re-imports under the next chain-id revision.
var c18RevisionBumps int

// c18NoExclusions is set while the saved input of a listed finding is re-run.
var c18NoExclusions bool

// c18KeyKnown: does a differing store key belong to a listed finding that still reproduces?
func c18KeyKnown(mod string, e sim.DiffEntry) string {
	for name, match := range knownMatch["C18"] {
		if !(strings.HasPrefix(name, "C18.I2.store."+mod+"/") || strings.HasPrefix(name, "C18.I4.behaviour."+mod+"/")) || match == "" {
			continue
		}
		switch {
		case match == "*", match == "fn:staleReverseLookup" && c18StaleReverseLookup != nil && c18StaleReverseLookup(e):
			return name
		case match == "fn:unexportedAVS" && c18UnexportedAVS != nil && c18UnexportedAVS(e):
			return name
		case match == "fn:valsetKeyReplacement" && c18ValsetKeyReplacement != nil && c18ValsetKeyReplacement(e):
			c18ValsetExcluded = true
			return name
		case !strings.HasPrefix(match, "fn:") && strings.Contains(string(e.Key), match):
			return name
		}
	}
	return ""
}

// c18UnexportedAVS is set by c18Judge for the chain under judgement: does the differing key of the
// operator store carry the address of an AVS that was registered through the precompile (the
// AVS module exports nothing, so such an AVS does not exist on the re-imported chain)?
var c18UnexportedAVS func(e sim.DiffEntry) bool

func makeUnexportedAVS(m *Machine) func(e sim.DiffEntry) bool {
	var addrs []string
	m.C.App.AVSManagerKeeper.IterateAVSInfo(m.C.CommittedCtx(), func(_ int64, info avstypes.AVSInfo) bool {
		if strings.ToLower(info.AvsAddress) != m.W.AvsAddr {
			addrs = append(addrs, strings.ToLower(info.AvsAddress))
		}
		return false
	})
	// AVSs that were registered and deregistered again leave operator records behind as well
	for _, k := range m.W.AVSKeys {
		addrs = append(addrs, strings.ToLower(k.Addr.Hex()))
	}
	return func(e sim.DiffEntry) bool {
		key := strings.ToLower(string(e.Key))
		for _, a := range addrs {
			if strings.Contains(key, a) {
				return true
			}
		}
		return false
	}
}

// c18ValsetKeyReplacement is set by c18Judge for the chain under judgement: is the differing key
// a dogfood validator entry of an operator whose key replacement is pending (previous key still
// stored): the old key's entry on the original chain only, or the new key's entry on the
// re-imported chain only?
var c18ValsetKeyReplacement func(e sim.DiffEntry) bool

// c18ValsetExcluded records that the case under judgement hit that finding: its follow-up
// validator updates necessarily differ, so the behaviour comparison is skipped.
var c18ValsetExcluded bool

func makeValsetKeyReplacement(c *sim.Chain) func(e sim.DiffEntry) bool {
	ctx := c.CommittedCtx()
	oldAddrs, newAddrs := map[string]bool{}, map[string]bool{}
	prev, err := c.App.OperatorKeeper.GetAllPrevConsKeys(ctx)
	if err != nil {
		return nil
	}
	for _, p := range prev {
		parts := strings.Split(p.Key, "/")
		if len(parts) != 2 {
			continue
		}
		op, err := sdk.AccAddressFromBech32(parts[1])
		if err != nil {
			continue
		}
		if k := keytypes.NewWrappedConsKeyFromHex(p.ConsensusKey); k != nil {
			oldAddrs[string(k.ToConsAddr())] = true
		}
		if found, cur, err := c.App.OperatorKeeper.GetOperatorConsKeyForChainID(ctx, op, parts[0]); err == nil && found {
			newAddrs[string(cur.ToConsAddr())] = true
		}
	}
	return func(e sim.DiffEntry) bool {
		if len(e.Key) != 21 || e.Key[0] != 1 {
			return false
		}
		addr := string(e.Key[1:])
		return (e.Before != nil && e.After == nil && oldAddrs[addr]) || (e.Before == nil && e.After != nil && newAddrs[addr])
	}
}

// c18StaleReverseLookup is set by c18Judge for the chain under judgement: is the differing key
// the consensus-address -> operator lookup of a key that is no longer the operator's current
// key (a replaced or removed key waiting to be pruned), present on the original chain only?
var c18StaleReverseLookup func(e sim.DiffEntry) bool

func makeStaleReverseLookup(c *sim.Chain) func(e sim.DiffEntry) bool {
	return func(e sim.DiffEntry) bool {
		if len(e.Key) < 9+20 || e.Key[0] != operatortypes.BytePrefixForChainIDAndConsKeyToOperator || e.Before == nil || e.After != nil {
			return false
		}
		n := int(binary.BigEndian.Uint64(e.Key[1:9]))
		if len(e.Key) != 9+n+20 {
			return false
		}
		chainID := string(e.Key[9 : 9+n])
		consAddr := e.Key[9+n:]
		found, cur, err := c.App.OperatorKeeper.GetOperatorConsKeyForChainID(c.CommittedCtx(), sdk.AccAddress(e.Before), chainID)
		if err != nil {
			return false
		}
		return !found || !bytes.Equal(cur.ToConsAddr(), consAddr)
	}
}

func indexByte(s string, c byte) int {
	for i := 0; i < len(s); i++ {
		if s[i] == c {
			return i
		}
	}
	return -1
}
