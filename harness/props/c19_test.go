package props

import (
	"testing"

	"exoverif/sim"

	"pgregory.net/rapid"
)

// ethConfig: a world with the hand-assembled contracts, the forwarder contract as gateway and
// generated fee-market parameters.
func ethConfig(t *rapid.T) sim.Config {
	cfg := sim.DefaultConfig(uint64(rapid.IntRange(1, 1<<30).Draw(t, "seed")))
	cfg.NumStakers = rapid.IntRange(2, 4).Draw(t, "nStakers")
	cfg.StakerNative = []string{"1000000000000000000000", "1000000000000000000000", "1000000000000000000000", "30000000000000000", "900000000000000"}[uniform(t, 5, "native")]
	cfg.EVM = &sim.EVMCfg{
		Contracts: true, GatewayContract: true,
		NoBaseFee:        uniform(t, 4, "noBaseFee") == 0,
		BaseFee:          []string{"1000000000", "7", "1000000000000", "0"}[uniform(t, 4, "baseFee")],
		MinGasPrice:      []string{"0", "0", "1000000000", "0.5", "20000000000"}[uniform(t, 5, "minGasPrice")],
		MinGasMultiplier: []string{"0", "0.5", "0.5", "1", "0.123456789"}[uniform(t, 5, "minGasMult")],
		BlockMaxGas:      []int64{0, 3_000_000, 10_000_000}[uniform(t, 3, "blockMaxGas")],
	}
	return cfg
}

func init() {
	registerWorldProp(&WorldProp{
		ID: "C19",
		Rule: "rapid histories of signed Ethereum transactions (legacy, access-list, dynamic-fee; prices at, just below and above the base fee and the minimum gas price; gas limits at, below and above the intrinsic cost and the block limit; values around the sender's balance; nonces at, below and above the account's nonce) " +
			"to accounts, to contracts that succeed, revert, run out of gas or execute an invalid opcode, to forwarder contracts that call the restaking precompiles (as gateway and not) before stopping, reverting or failing, and contract creations; each goes through CheckTx and, if admitted, DeliverTx, several per block and per sender, over generated fee-market parameters; " +
			"non-trivial = a history with at least 5 included transactions of at least 3 classes, a failed execution whose precompile call had succeeded inside, and a rejected transaction; distinct = hash of the (kind, outcome) sequence",
		Gen:        GenOpts{Weights: map[string]int{"ethTx": 80, "nextBlock": 20}, HostilePct: 0, ExtremePct: 0, Anchor: true, Tempos: []int{3, 8, 20}},
		MinSteps:   25,
		MaxSteps:   90,
		Config:     ethConfig,
		Invariants: func() []Invariant { return []Invariant{newEthInv()} },
		NonTrivial: func(m *Machine, invs []Invariant) (bool, []string) {
			e := invs[0].(*ethInv)
			inc, rej, failedFwd := 0, 0, 0
			for k, v := range e.Included {
				m.Labels["included:"+k] += v
				inc += v
			}
			for k, v := range e.Failed {
				m.Labels["failed-execution:"+k] += v
				if len(k) > 0 && (containsStr(k, "gateway-forwarder(call,then 1") || containsStr(k, "gateway-forwarder(call,then 2") || containsStr(k, "gateway-forwarder(call,then 3")) {
					failedFwd += v
				}
			}
			for k, v := range e.Rejected {
				m.Labels["not-included:"+k] += v
				rej += v
			}
			m.Labels["balance-equations-checked"] += e.Sums
			m.Labels["forwarder-calls-by-staticcall-or-delegatecall-judged"] += e.NonCall
			return inc >= 5 && len(e.Included) >= 3 && failedFwd > 0 && rej > 0, nil
		},
	})
}

func containsStr(s, sub string) bool {
	for i := 0; i+len(sub) <= len(s); i++ {
		if s[i:i+len(sub)] == sub {
			return true
		}
	}
	return false
}

func TestC19(t *testing.T) { runWorldProp(t, "C19") }
