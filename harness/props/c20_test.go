package props

import (
	"testing"
	"time"

	"exoverif/sim"

	epochstypes "github.com/ExocoreNetwork/exocore/x/epochs/types"
	"pgregory.net/rapid"
)

// avsConfig: a world with accounts that act as AVS / task contracts and a fast epoch identifier,
// so that response, statistical and challenge periods of 0..3 epochs pass within a short history.
func avsConfig(t *rapid.T) sim.Config {
	cfg := worldConfig(t)
	cfg.NumAVS = rapid.IntRange(2, 4).Draw(t, "nAVS")
	cfg.ExtraEpochs = []epochstypes.EpochInfo{epochstypes.NewGenesisEpochInfo("fast", 20*time.Second)}
	if rapid.IntRange(0, 2).Draw(t, "second-fast?") == 0 {
		cfg.ExtraEpochs = append(cfg.ExtraEpochs, epochstypes.NewGenesisEpochInfo("brisk", 45*time.Second))
	}
	return cfg
}

func avsWeights() map[string]int {
	return map[string]int{
		"nextBlock": 34, "avsRegister": 7, "avsUpdate": 3, "avsDeregister": 1, "avsOptIn": 9, "avsOptOut": 2, "avsBLS": 7,
		"avsTask": 9, "avsResult": 26, "avsChallenge": 8,
		"depositLST": 3, "delegate": 4, "undelegate": 2, "associate": 2, "slash": 1,
	}
}

// avsDynamic steers the weights to what the AVS state allows next (register -> opt in -> epoch
// end -> task -> results -> challenges), so that deep states are reached in short histories.
func avsDynamic(m *Machine, w map[string]int) map[string]int {
	out := map[string]int{}
	for k, v := range w {
		out[k] = v
	}
	v := m.avsView()
	if len(v.avs) == 0 {
		out["avsRegister"] *= 6
		out["avsTask"], out["avsResult"], out["avsChallenge"] = 1, 1, 1
		return out
	}
	valued := false
	for _, a := range v.avs {
		if val, err := m.C.App.OperatorKeeper.GetAVSUSDValue(m.C.Ctx(), a.AvsAddress); err == nil && val.IsPositive() {
			valued = true
		}
	}
	if !valued {
		out["avsOptIn"] *= 3
		out["avsBLS"] *= 2
		out["avsResult"], out["avsChallenge"] = 2, 1
	}
	if len(v.tasks) == 0 {
		out["avsTask"] *= 3
		out["avsResult"], out["avsChallenge"] = 2, 1
	} else if len(v.results) == 0 {
		out["avsChallenge"] = 1
	}
	// do not let an open window pass unused
	reveals, challenges := m.avsOpenWindows(v)
	if reveals > 0 {
		out["avsResult"] *= 3
		out["nextBlock"] /= 3
	}
	if challenges > 0 {
		out["avsChallenge"] *= 6
		out["nextBlock"] /= 2
	}
	return out
}

func init() {
	registerWorldProp(&WorldProp{
		ID: "C20",
		Rule: "rapid histories of AVS registration/update/deregistration, operator opt-in/out (precompile and message), BLS key registration, task creation, " +
			"phase-one/phase-two results and challenges by generated callers, at generated epoch offsets (periods 0..3 epochs of a 20 s epoch) with malformed variants, " +
			"interleaved with restaking operations; non-trivial = a history in which a phase-two result was accepted and the statistics of a task with at least one result were checked at the end of its statistical period (accepted challenges are counted separately); " +
			"distinct = hash of the (kind, outcome) sequence",
		Gen:        GenOpts{Weights: avsWeights(), HostilePct: 3, ExtremePct: 0, Anchor: true, Tempos: []int{7, 12, 21}, CapBits: 40, ClampBits: 40, Dynamic: avsDynamic},
		MinSteps:   40,
		MaxSteps:   140,
		Config:     avsConfig,
		Invariants: func() []Invariant { return []Invariant{newAvsInv()} },
		NonTrivial: func(m *Machine, invs []Invariant) (bool, []string) {
			a := invs[0].(*avsInv)
			for k, n := range a.Accepted {
				m.Labels["accepted:"+k] += n
			}
			for k, n := range a.Windows {
				m.Labels["window:"+k] += n
			}
			m.Labels["stats-checked"] += a.Stats
			p2 := 0
			for _, r := range a.results {
				if r.Stage == "2" {
					p2++
				}
			}
			m.Labels["phase-two-accepted"] += p2
			m.Labels["challenges-accepted"] += len(a.challenges)
			return p2 > 0 && a.Stats > 0, nil
		},
	})
}

func TestC20(t *testing.T) { runWorldProp(t, "C20") }
