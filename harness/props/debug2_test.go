package props

import (
	"encoding/json"
	"os"
	"testing"

	"exoverif/sim"
)

func TestDebugC14(t *testing.T) {
	f := os.Getenv("VERIF_DEBUG_FILE")
	if f == "" {
		t.Skip()
	}
	b, _ := os.ReadFile(f)
	var cf CaseFile
	json.Unmarshal(b, &cf)
	p := worldProps["C14"]
	m := recordHistory(t, p, cf.Config, func(m *Machine, i int) (Action, bool) {
		if i >= len(cf.Actions) {
			return Action{}, false
		}
		return cf.Actions[i], true
	})
	for i, a := range m.Log {
		t.Logf("%d %s -> %+v", i, a.String(), m.Outs[i].OK)
	}
	for _, blk := range m.C.Blocks {
		t.Logf("block %d txs=%d valupdates=%d", blk.Height, len(blk.Txs), len(blk.ValUpdates))
		for _, tr := range blk.TxResults {
			t.Logf("     code=%d log=%.80s", tr.Code, tr.Log)
		}
	}
	c2, _ := sim.Replay(m.W, m.C.Blocks[:4], nil)
	ctx := c2.CommittedCtx()
	vub, ok := c2.App.OracleKeeper.GetValidatorUpdateBlock(ctx)
	t.Logf("validatorUpdateBlock=%v %v", vub, ok)
	for h, msgs := range c2.App.OracleKeeper.GetAllRecentMsgAsMap(ctx) {
		for _, mm := range msgs {
			t.Logf("recentMsg block %d: feeder %d validator %s sources %v", h, mm.FeederID, mm.Validator, mm.PSources)
		}
	}
	t.Logf("mem before restart:\n%s", sim.OracleMemDump())
	c2.Restart()
	c2.BeginBlock(1e9, nil)
	t.Logf("mem after restart+BeginBlock:\n%s", sim.OracleMemDump())
}
