package props

import (
	"fmt"
	"os"
	"testing"

	"exoverif/sim"
)

func TestDebugAvsCall(t *testing.T) {
	if os.Getenv("VERIF_DEBUG_AVS") == "" {
		t.Skip()
	}
	cfg := sim.DefaultConfig(5)
	cfg.NumAVS = 2
	m, err := NewMachine(cfg)
	if err != nil {
		t.Fatal(err)
	}
	r, err := m.C.AvsOptIn(m.W.AVSKeys[0], m.W.Operators[0].Addr)
	fmt.Printf("optin unregistered: %+v err=%v\n", r, err)
	r, err = m.C.AvsCreateTask(m.W.AVSKeys[0], m.W.Operators[0].Addr, "t", []byte{1}, 1, 1, 1, 1)
	fmt.Printf("task unregistered: %+v err=%v\n", r, err)
}
