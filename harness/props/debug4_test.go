package props

import (
	"encoding/json"
	"os"
	"strings"
	"testing"

	"exoverif/sim"
)

func TestDebugC14b(t *testing.T) {
	f := os.Getenv("VERIF_DEBUG_FILE2")
	if f == "" {
		t.Skip()
	}
	b, _ := os.ReadFile(f)
	var cf CaseFile
	json.Unmarshal(b, &cf)
	p := worldProps["C14"]
	m := recordHistory(t, p, cf.Config, func(m *Machine, i int) (Action, bool) {
		if i >= len(cf.Actions) {
			return Action{}, false
		}
		return cf.Actions[i], true
	})
	blocks := m.C.Blocks
	for _, blk := range blocks {
		t.Logf("block %d txs=%d", blk.Height, len(blk.Txs))
		for i, tr := range blk.TxResults {
			t.Logf("     %d code=%d log=%.90s", i, tr.Code, tr.Log)
		}
	}
	// heights 1..4 as recorded, height 5 with its first k transactions only
	for k := 0; k <= 7; k++ {
		cut := append([]sim.BlockRecord{}, blocks[:5]...)
		b5 := cut[4]
		b5.Txs = b5.Txs[:k]
		b5.TxResults = nil
		cut[4] = b5
		a, errA := sim.Replay(m.W, cut, nil)
		memA := strings.ReplaceAll(sim.OracleMemDump(), "msg:&nil", "msg:&[]")
		bb, errB := sim.Replay(m.W, cut, map[int64]bool{4: true})
		memB := strings.ReplaceAll(sim.OracleMemDump(), "msg:&nil", "msg:&[]")
		t.Logf("k=%d errA=%v errB=%v same=%v", k, errA, errB, memA == memB)
		if k == 6 {
			t.Logf("MEMA:\n%s", memA)
		}
		if errA == nil && errB == nil && len(a.Blocks) > 4 && len(bb.Blocks) > 4 {
			for i := range a.Blocks[4].TxResults {
				t.Logf("      tx %d: cont code=%d  rest code=%d", i, a.Blocks[4].TxResults[i].Code, bb.Blocks[4].TxResults[i].Code)
			}
		}
		if memA != memB {
			la, lb := strings.Split(memA, "\n"), strings.Split(memB, "\n")
			for i := 0; i < len(la) || i < len(lb); i++ {
				x, y := "", ""
				if i < len(la) {
					x = la[i]
				}
				if i < len(lb) {
					y = lb[i]
				}
				if x != y {
					t.Logf("  line %d:\n    cont: %.3000s\n    rest: %.3000s", i, x, y)
				}
			}
			break
		}
	}
}
