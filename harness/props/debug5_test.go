package props

import (
	"fmt"
	"math/big"
	"os"
	"testing"

	"exoverif/sim"

	"github.com/ethereum/go-ethereum/common"
)

func TestDebugEVM(t *testing.T) {
	if os.Getenv("VERIF_DEBUG_EVM") == "" {
		t.Skip()
	}
	cfg := sim.DefaultConfig(5)
	cfg.EVM = &sim.EVMCfg{Contracts: true, GatewayContract: true, BaseFee: "1000000000", MinGasPrice: "0", MinGasMultiplier: "0.5"}
	m, err := NewMachine(cfg)
	if err != nil {
		t.Fatal(err)
	}
	c := m.C
	who := m.W.Stakers[0]
	word := common.LeftPadBytes([]byte{0x2a}, 32)
	show := func(name string, to common.Address, data []byte, gas uint64) {
		resp, res, err := c.EthCall(who, to, data, gas)
		fmt.Printf("%s: code=%d err=%v", name, res.Code, err)
		if resp != nil {
			fmt.Printf(" vmerr=%q gasUsed=%d ret=%x", resp.VmError, resp.GasUsed, resp.Ret)
		} else {
			fmt.Printf(" log=%.200s", res.Log)
		}
		fmt.Printf(" slot0(to)=%x\n", c.App.EvmKeeper.GetState(c.Ctx(), to, common.Hash{}))
	}
	show("storer", sim.StorerAddr, word, 100000)
	show("reverter", sim.ReverterAddr, word, 100000)
	show("burner", sim.BurnerAddr, nil, 60000)
	abi := c.AssetsABI()
	lz := uint32(cfg.Assets[0].LzID)
	dep, err := abi.Pack("depositLST", lz, pad32b(cfg.Assets[0].AddrBytes()), pad32b(who.Addr.Bytes()), big.NewInt(1000))
	if err != nil {
		t.Fatal(err)
	}
	for mode := byte(0); mode < 4; mode++ {
		show(fmt.Sprintf("forwarder mode %d", mode), sim.ForwarderAddr, append(append([]byte{mode}, sim.AssetsPrecompileAddr.Bytes()...), dep...), 2000000)
		v, _ := Observe(c)
		fmt.Printf("   staker row: %+v\n", v.Staker[m.StakerID(0, 0)])
	}
}
