package props

import (
	"fmt"
	"os"
	"strings"
	"testing"

	"exoverif/sim"
)

func TestDebugNSTPrice(t *testing.T) {
	if os.Getenv("VERIF_DEBUG_NST") == "" {
		t.Skip()
	}
	cfg := sim.DefaultConfig(9)
	cfg.NumOperators, cfg.NumValidators, cfg.SelfStake = 3, 3, []int64{100, 100, 100}
	cfg.OracleMaxNonce = 3
	cfg.Feeders = []sim.FeederCfg{{Asset: 2, StartBaseBlock: 3, Interval: 8}}
	m, err := NewMachine(cfg, &oracleInv{})
	if err != nil {
		t.Fatal(err)
	}
	step := func(a Action) Outcome {
		if err := m.Step(a); err != nil {
			t.Fatalf("step %s: %v", a.String(), err)
		}
		o := m.Outs[len(m.Outs)-1]
		fmt.Printf("%s -> ok=%v %.120s\n", a.String(), o.OK, o.Note)
		return o
	}
	if os.Getenv("VERIF_DEBUG_NST") == "early" {
		step(Action{Kind: "depositNST", Actor: 0, Asset: 2, Amount: "32"})
		step(Action{Kind: "depositNST", Actor: 1, Asset: 2, Amount: "32"})
	}
	for i := 0; i < 4; i++ {
		step(Action{Kind: "nextBlock", Dt: 2})
	}
	price := strings.Repeat("7", 40)
	f := m.W.Feeders[0]
	fmt.Printf("feeder %+v height %d\n", f, m.C.Height)
	for k := 0; k < 3; k++ {
		step(Action{Kind: "price", Key: k, Feeder: f.ID, Based: 3, PNonce: 1, Dets: []string{"1"}, Prices: []string{price}, Ts: m.C.Time.UTC().Format("2006-01-02 15:04:05"), Dec: 0, Src: 1})
	}
	step(Action{Kind: "nextBlock", Dt: 2})
	step(Action{Kind: "depositNST", Actor: 0, Asset: 2, Amount: "32"})
	for i := 0; i < 30; i++ {
		if err := m.Step(Action{Kind: "nextBlock", Dt: 2}); err != nil {
			fmt.Printf("HALT: %v\n", err)
			if h, ok := err.(*sim.Halt); ok {
				fmt.Printf("%.3000s\n", h.Stack)
			}
			return
		}
	}
	fmt.Println("no halt")
}
