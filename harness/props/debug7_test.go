package props

import (
	"os"
	"testing"
	"time"

	sdkmath "cosmossdk.io/math"
	"github.com/ExocoreNetwork/exocore/utils"
	sdk "github.com/cosmos/cosmos-sdk/types"
	govv1 "github.com/cosmos/cosmos-sdk/x/gov/types/v1"

	"exoverif/sim"
)

// probe: a funded proposal reaches the end of its voting period
func TestDebugGov(t *testing.T) {
	if os.Getenv("VERIF_DEBUG_GOV") == "" {
		t.Skip()
	}
	cfg := sim.DefaultConfig(1)
	cfg.Gov = &sim.GovCfg{MinDeposit: 1000, DepositSeconds: 60, VotingSeconds: 30}
	m, err := NewMachine(cfg)
	if err != nil {
		t.Fatal(err)
	}
	c := m.C
	c.BeginBlock(5*time.Second, nil)
	from := m.W.Stakers[0]
	msg, err := govv1.NewMsgSubmitProposal(nil, sdk.NewCoins(sdk.NewCoin(utils.BaseDenom, sdkmath.NewInt(1000))), from.Bech32(), "meta", "title", "summary")
	if err != nil {
		t.Fatal(err)
	}
	res, err := c.CosmosTx(from, msg)
	t.Logf("submit: code=%d log=%s err=%v", res.Code, res.Log, err)
	for i, o := range m.W.Operators {
		opt := govv1.OptionYes
		if i == 1 {
			opt = govv1.OptionNo
		}
		r, err := c.CosmosTx(o, govv1.NewMsgVote(o.Acc(), 1, opt, ""))
		t.Logf("vote op%d: code=%d err=%v %.200s", i, r.Code, err, r.Log)
	}
	c.EndBlock()
	c.Commit()
	for i := 0; i < 5 && c.Halted == nil; i++ {
		c.BeginBlock(10*time.Second, nil)
		c.EndBlock()
		c.Commit()
		t.Logf("block %d halted=%v", c.Height, c.Halted)
		if p, ok := c.App.GovKeeper.GetProposal(c.CommittedCtx(), 1); ok {
			t.Logf("   proposal status %s tally %+v", p.Status, p.FinalTallyResult)
		}
	}
}
