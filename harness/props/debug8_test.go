package props

import (
	"encoding/json"
	"os"
	"testing"

	"exoverif/sim"
)

// probe: what a failed registerToken leaves in the oracle parameters after the block ends
func TestDebugPhantomToken(t *testing.T) {
	f := os.Getenv("VERIF_DEBUG_PHANTOM")
	if f == "" {
		t.Skip()
	}
	b, _ := os.ReadFile(f)
	var cf CaseFile
	if err := json.Unmarshal(b, &cf); err != nil {
		t.Fatal(err)
	}
	m, err := NewMachine(cf.Config)
	if err != nil {
		t.Fatal(err)
	}
	for i, a := range cf.Actions {
		pre := sim.OracleMemDump()
		_ = m.Step(a)
		if post := sim.OracleMemDump(); post != pre && !m.Outs[len(m.Outs)-1].OK {
			for k := 0; k < len(pre) && k < len(post); k++ {
				if pre[k] != post[k] {
					lo := k - 200
					if lo < 0 {
						lo = 0
					}
					t.Logf("   memory differs at %d: before ...%s\n   after  ...%s", k, pre[lo:minInt(len(pre), k+300)], post[lo:minInt(len(post), k+300)])
					break
				}
			}
		}
		p := m.C.App.OracleKeeper.GetParams(m.C.Ctx())
		t.Logf("%d %s -> ok=%v tokens in oracle params (store): %d", i, a.Kind, m.Outs[len(m.Outs)-1].OK, len(p.Tokens))
	}
	_ = m.Step(Action{Kind: "nextBlock", Dt: 1})
	p := m.C.App.OracleKeeper.GetParams(m.C.Ctx())
	t.Logf("after the next block: tokens in oracle params (store): %d, last %+v", len(p.Tokens), p.Tokens[len(p.Tokens)-1])
}
