package props

import (
	"bytes"
	"encoding/json"
	"fmt"
	"os"
	"strings"
	"testing"

	"exoverif/sim"
)

// probe: store access trace of one block on a continuous and on a restarted node
func TestDebugGasTrace(t *testing.T) {
	f := os.Getenv("VERIF_DEBUG_GASTRACE")
	if f == "" {
		t.Skip()
	}
	b, _ := os.ReadFile(f)
	var cf CaseFile
	if err := json.Unmarshal(b, &cf); err != nil {
		t.Fatal(err)
	}
	p := worldProps["C08"]
	m := recordHistory(t, p, cf.Config, func(m *Machine, i int) (Action, bool) {
		if i >= len(cf.Actions) {
			return Action{}, false
		}
		return cf.Actions[i], true
	})
	blocks := m.C.Blocks
	run := func(restartAfter int64, traceHeight int64) string {
		c, err := sim.NewChain(m.W)
		if err != nil {
			t.Fatal(err)
		}
		var buf bytes.Buffer
		for _, b := range blocks {
			if b.Height == traceHeight {
				c.App.CommitMultiStore().SetTracer(&buf)
			}
			c.BeginBlock(b.Time.Sub(c.Time), b.Opts)
			if b.Height == traceHeight {
				t.Logf("restartAfter=%d: block ctx gas after BeginBlock: %d", restartAfter, c.Ctx().GasMeter().GasConsumed())
			}
			for i, tx := range b.Txs {
				if b.Height == traceHeight {
					fmt.Fprintf(&buf, "=== tx %d\n", i)
				}
				res := c.DeliverTx(tx)
				if b.Height == traceHeight {
					fmt.Fprintf(&buf, "=== tx %d gas %d code %d\n", i, res.GasUsed, res.Code)
					t.Logf("restartAfter=%d: after tx %d (code %d gas %d): block ctx gas %d", restartAfter, i, res.Code, res.GasUsed, c.Ctx().GasMeter().GasConsumed())
				}
			}
			c.EndBlock()
			c.Commit()
			if b.Height == traceHeight {
				break
			}
			if b.Height == restartAfter {
				if err := c.Restart(); err != nil {
					t.Fatal(err)
				}
			}
		}
		return buf.String()
	}
	a, r := run(-1, 10), run(9, 10)
	la, lr := strings.Split(a, "\n"), strings.Split(r, "\n")
	t.Logf("trace lines: continuous %d, restarted %d", len(la), len(lr))
	// per transaction: number of operations
	count := func(ls []string) map[string]int {
		out := map[string]int{}
		cur := ""
		for _, l := range ls {
			if strings.HasPrefix(l, "=== tx") {
				cur = l
				continue
			}
			out[cur]++
		}
		return out
	}
	ca, cr := count(la), count(lr)
	for k, v := range ca {
		if cr[k] != v {
			t.Logf("differs: %q continuous %d ops, restarted %d", k, v, cr[k])
		}
	}
	for k, v := range cr {
		if _, ok := ca[k]; !ok {
			t.Logf("only restarted: %q %d", k, v)
		}
	}
	_ = os.WriteFile("/tmp/trace-cont.txt", []byte(a), 0o644)
	_ = os.WriteFile("/tmp/trace-rest.txt", []byte(r), 0o644)
}
