package props

import (
	"encoding/json"
	"os"
	"testing"

	avstypes "github.com/ExocoreNetwork/exocore/x/avs/types"
)

func TestDebugReplay(t *testing.T) {
	f := os.Getenv("VERIF_DEBUG_FILE")
	if f == "" {
		t.Skip()
	}
	b, _ := os.ReadFile(f)
	var cf CaseFile
	if err := json.Unmarshal(b, &cf); err != nil {
		t.Fatal(err)
	}
	m, err := NewMachine(cf.Config)
	if err != nil {
		t.Fatal(err)
	}
	chainID := avstypes.ChainIDWithoutRevision(m.W.Cfg.ChainID)
	for i, a := range cf.Actions {
		err := m.Step(a)
		t.Logf("%d %s -> %+v err=%v", i, a.String(), m.Outs[len(m.Outs)-1], err)
		for _, val := range m.C.App.StakingKeeper.GetAllExocoreValidators(m.C.Ctx()) {
			_, found := m.C.App.OperatorKeeper.ValidatorByConsAddrForChainID(m.C.Ctx(), val.Address, chainID)
			t.Logf("    validator %x power %d resolvable=%v", val.Address[:4], val.Power, found)
		}
		for oi, o := range m.W.Operators {
			ctx := m.C.Ctx()
			rem := m.C.App.OperatorKeeper.IsOperatorRemovingKeyFromChainID(ctx, o.Acc(), chainID)
			found, key, _ := m.C.App.OperatorKeeper.GetOperatorConsKeyForChainID(ctx, o.Acc(), chainID)
			fin := m.C.App.StakingKeeper.GetOperatorOptOutFinishEpoch(ctx, o.Acc())
			ks := ""
			if found {
				ks = key.ToConsAddr().String()
			}
			t.Logf("    op%d removing=%v key=%v %s finishEpoch=%d optedIn=%v", oi, rem, found, ks, fin, m.C.App.OperatorKeeper.IsOptedIn(ctx, o.Bech32(), m.W.AvsAddr))
		}
	}
}
