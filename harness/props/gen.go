package props

import (
	"bytes"
	"os"
	"time"

	"exoverif/sim"

	avstypes "github.com/ExocoreNetwork/exocore/x/avs/types"
	sdk "github.com/cosmos/cosmos-sdk/types"
	"math/big"
	"sort"

	"pgregory.net/rapid"
)

// GenOpts selects which actions a property's histories contain and how hostile they are.
type GenOpts struct {
	Weights     map[string]int // action kind -> weight (0 = never)
	HostilePct  int            // probability (percent) that an action is drawn in its hostile variant
	ExtremePct  int            // probability (percent) of extreme amounts (2^128, 2^255-ish)
	MaxDt       int            // max seconds per block step
	NativeToken bool           // include native-token (cosmos message) delegation
	lastExtreme bool
	// Anchor keeps operator 0 (the first genesis validator) out of harm: it is never slashed,
	// jailed, opted out, re-keyed, and its self-stake is never undelegated, so the chain always
	// has a validator. Properties about the validator set itself switch this off.
	Anchor bool
	// FocusAsset >= 0 makes asset choices prefer that asset (drawn per case by the runner when
	// Focus is set), so that histories concentrate on one ledger (e.g. the NST one).
	Focus      bool
	FocusPct   int
	ForceFocus int // > 0: always focus on asset ForceFocus-1
	FocusAsset int
	// Tempos: per case, the maximum block step is drawn from this list (0 entries = MaxDt).
	Tempos []int
	// CapBits > 0 replaces extreme amounts by values below 2^CapBits (exclusion by construction of a
	// listed known finding); Capped counts how often that happened.
	CapBits int
	Capped  *int
	// ClampBits > 0 keeps every drawn amount below 2^ClampBits.
	ClampBits int
	// AvoidSenderNotSigner, if set, keeps AVS precompile calls that act for a `sender` other
	// than the transaction's signer out of the histories (exclusion by construction of a listed
	// finding) and counts how often that happened.
	AvoidSenderNotSigner *int
	// DowntimePct > 0: that share of the blocks has validators missing from the last commit
	// (worlds with a short x/slashing window turn that into downtime slashes and jailing).
	DowntimePct int
	// FailingSecondMsg: price transactions may carry a second message with the validator's next
	// nonce that fails in execution (C13); AvoidFailingSecondMsg, if set, keeps them out again
	// (exclusion by construction of a listed finding) and counts how often.
	RestartPct            int // share of the block boundaries at which the node is restarted (application re-opened on the same database)
	TwoSignerPct          int // share of the price transactions that carry the same report by two validators, each signing itself
	FailingSecondMsg      bool
	AvoidFailingSecondMsg *int
	// WideChains: client chains registered during the history may have addresses longer than 20
	// bytes, tokens are registered on them and deposited (kind depositTok)
	WideChains bool
	// SimPct > 0: that share of the transactions is not delivered but run as a node-local
	// simulation on the recording node (C08, C14: the replicas never see them)
	SimPct int
	// PricePool, if set, replaces the pool of price strings of generated price submissions.
	PricePool []string
	// Dynamic, if set, adjusts the weights to the current state before every draw.
	Dynamic func(m *Machine, w map[string]int) map[string]int
}

func defaultWeights() map[string]int {
	return map[string]int{
		"nextBlock": 14, "depositLST": 10, "withdrawLST": 6, "delegate": 12, "undelegate": 12,
		"associate": 3, "dissociate": 2, "depositNST": 4, "withdrawNST": 2, "nstUpdate": 4,
		"nativeDelegate": 4, "nativeUndelegate": 4, "slash": 5, "jail": 1, "unjail": 1,
		"optIn": 2, "optOut": 2, "setKey": 2,
	}
}

// uniform draws an (almost) uniformly distributed int in [0,n). rapid's own integer generators
// are deliberately biased towards small values, which starves weighted choices; mixing the bits
// keeps every random choice inside the library (so shrinking and replay still work).
func uniform(t *rapid.T, n int, label string) int {
	if n <= 1 {
		return 0
	}
	// two raw draws: rapid returns the raw value 0 (and a few other special values) several
	// percent of the time, which a single mixed draw would turn into a heavy bias for index 0;
	// with two draws that bias needs both to be special at once. (0,0) still maps to index 0,
	// so shrinking moves every choice towards its first option.
	a := mix64(rapid.Uint64().Draw(t, label), 0xbf58476d1ce4e5b9, 0x94d049bb133111eb)
	b := mix64(rapid.Uint64().Draw(t, label+"'"), 0xff51afd7ed558ccd, 0xc4ceb9fe1a85ec53)
	return int((a ^ b) % uint64(n))
}

func mix64(u, c1, c2 uint64) uint64 {
	u ^= u >> 30
	u *= c1
	u ^= u >> 27
	u *= c2
	u ^= u >> 31
	return u
}

// pct is true with probability p percent. rapid draws (and shrinks to) the raw value 0 far more
// often than any other value, and uniform maps 0 to 0: the rare branch must therefore not sit at
// 0, otherwise every "p percent" variant is taken several percent more often than stated.
func pct(t *rapid.T, p int, label string) bool { return uniform(t, 100, label) >= 100-p }

func pow2(n uint) *big.Int { return new(big.Int).Lsh(big.NewInt(1), n) }

// drawAmount draws an amount biased to the boundaries around `avail` (which may be nil/0).
func drawAmount(t *rapid.T, g *GenOpts, avail *big.Int, label string) *big.Int {
	v := drawAmount0(t, g, avail, label)
	if g.ClampBits > 0 && v.BitLen() > g.ClampBits {
		// keep the whole history below the overflow domain of a listed finding (C11)
		v = new(big.Int).Add(new(big.Int).Mod(v, pow2(uint(g.ClampBits))), big.NewInt(1))
	}
	return v
}

func drawAmount0(t *rapid.T, g *GenOpts, avail *big.Int, label string) *big.Int {
	if pct(t, g.ExtremePct, label+"-extreme?") {
		g.lastExtreme = true
		if g.CapBits > 0 {
			if g.Capped != nil {
				*g.Capped++
			}
			return new(big.Int).Sub(pow2(uint(g.CapBits)), big.NewInt(int64(rapid.IntRange(1, 1000).Draw(t, label+"-capdelta"))))
		}
		switch rapid.IntRange(0, 3).Draw(t, label+"-extreme") {
		case 0:
			return pow2(128)
		case 1:
			return new(big.Int).Sub(pow2(255), big.NewInt(int64(rapid.IntRange(0, 3).Draw(t, label+"-delta"))))
		case 2:
			return new(big.Int).Sub(pow2(256), big.NewInt(1))
		default:
			return pow2(64)
		}
	}
	if avail != nil && avail.Sign() > 0 {
		switch uniform(t, 10, label+"-rel") {
		case 0:
			return new(big.Int).Set(avail)
		case 1:
			return new(big.Int).Add(avail, big.NewInt(1))
		case 2:
			if avail.Cmp(big.NewInt(1)) > 0 {
				return new(big.Int).Sub(avail, big.NewInt(1))
			}
			return big.NewInt(1)
		case 3:
			return big.NewInt(1)
		case 4, 5, 6:
			// a fraction of what is available
			num := int64(rapid.IntRange(1, 99).Draw(t, label+"-pct"))
			v := new(big.Int).Mul(avail, big.NewInt(num))
			v.Div(v, big.NewInt(100))
			if v.Sign() == 0 {
				v.SetInt64(1)
			}
			return v
		}
	}
	switch uniform(t, 6, label+"-abs") {
	case 0:
		return big.NewInt(int64(rapid.IntRange(1, 10).Draw(t, label+"-small")))
	case 1:
		return new(big.Int).Exp(big.NewInt(10), big.NewInt(int64(rapid.IntRange(0, 24).Draw(t, label+"-exp"))), nil)
	default:
		m := int64(rapid.IntRange(1, 1_000_000).Draw(t, label+"-mant"))
		e := int64(rapid.IntRange(0, 12).Draw(t, label+"-e"))
		return new(big.Int).Mul(big.NewInt(m), new(big.Int).Exp(big.NewInt(10), big.NewInt(e), nil))
	}
}

func pickWeighted(t *rapid.T, w map[string]int) string {
	kinds := make([]string, 0, len(w))
	total := 0
	for k, v := range w {
		if v > 0 {
			kinds = append(kinds, k)
			total += v
		}
	}
	sort.Strings(kinds)
	x := uniform(t, total, "kind")
	for _, k := range kinds {
		if x < w[k] {
			return k
		}
		x -= w[k]
	}
	return kinds[len(kinds)-1]
}

func (m *Machine) lstAssets() []int {
	var out []int
	for i, a := range m.W.Cfg.Assets {
		if !a.NST {
			out = append(out, i)
		}
	}
	return out
}

func (m *Machine) nstAsset() int {
	for i, a := range m.W.Cfg.Assets {
		if a.NST {
			return i
		}
	}
	return -1
}

// fundedPositions lists (actor, asset) pairs with a positive withdrawable balance.
func (m *Machine) fundedPositions(v *View, assets []int) [][2]int {
	var out [][2]int
	if v == nil {
		return out
	}
	for ac := 0; ac < m.NumActors(); ac++ {
		for _, as := range assets {
			if r, ok := v.Staker[m.StakerID(ac, as)][m.W.AssetIDs[as]]; ok && r.Withdrawable.Sign() > 0 {
				out = append(out, [2]int{ac, as})
			}
		}
	}
	return out
}

func allAssets(m *Machine) []int {
	out := make([]int, len(m.W.Cfg.Assets))
	for i := range out {
		out[i] = i
	}
	return out
}

// Draw draws the next action. The current chain state is consulted only to bias amounts and
// choices towards the boundaries the code branches on; the drawn action is fully concrete.
// Draw draws the next action; with SimPct a share of the transactions is turned into node-local
// simulations.
func (m *Machine) Draw(t *rapid.T, g *GenOpts) Action {
	a := m.draw0(t, g)
	if g.SimPct > 0 && simulatable(a.Kind) && pct(t, g.SimPct, "simulate?") {
		a.Sim = true
	}
	return a
}

func (m *Machine) draw0(t *rapid.T, g *GenOpts) Action {
	w := g.Weights
	if w == nil {
		w = defaultWeights()
	}
	if g.Dynamic != nil {
		w = g.Dynamic(m, w)
	}
	kind := pickWeighted(t, w)
	hostile := pct(t, g.HostilePct, "hostile?")
	v, _ := Observe(m.C)
	a := Action{Kind: kind}
	g.lastExtreme = false
	defer func() {}()
	actor := func() int { return uniform(t, m.NumActors(), "actor") }
	op := func() int { return uniform(t, len(m.W.Operators), "op") }
	anyAsset := func() int {
		if g.Focus && g.FocusAsset >= 0 && g.FocusAsset < len(m.W.Cfg.Assets) && pct(t, maxInt(g.FocusPct, 70), "focus?") {
			return g.FocusAsset
		}
		return uniform(t, len(m.W.Cfg.Assets), "asset")
	}
	maxDt := g.MaxDt
	if maxDt <= 0 {
		maxDt = 40
	}
	switch kind {
	case "nextBlock":
		a.Dt = rapid.IntRange(1, maxDt).Draw(t, "dt")
		if rapid.IntRange(0, 19).Draw(t, "gap?") == 0 {
			a.Dt = rapid.IntRange(60, 400).Draw(t, "gap")
		}
		if g.RestartPct > 0 && pct(t, g.RestartPct, "restart?") {
			a.Restart = true
		}
		if g.DowntimePct > 0 && pct(t, g.DowntimePct, "downtime?") {
			// some validators miss the commit (their keys are taken from the current set, so that
			// the same ones can be kept down over consecutive blocks)
			var in []int
			for i, k := range m.Keys {
				if m.C.ValSet.HasAddress(k.ConsAddr()) {
					in = append(in, i)
				}
			}
			if len(in) > 0 {
				start := uniform(t, len(in), "down-first")
				n := 1 + uniform(t, len(in), "down-n")
				if !g.Anchor && n >= len(in) {
					n = len(in) - 1 // somebody keeps signing: a chain without validators is out of scope
				}
				for j := 0; j < n && j < len(in); j++ {
					k := in[(start+j)%len(in)]
					if g.Anchor && k == 0 {
						continue
					}
					a.Absent = append(a.Absent, k)
				}
				if m.downSticky != nil && pct(t, 70, "same-again?") {
					a.Absent = a.Absent[:0]
					for _, k := range m.downSticky {
						if len(a.Absent) < len(in)-1 || g.Anchor {
							a.Absent = append(a.Absent, k)
						}
					}
				}
				m.downSticky = append([]int{}, a.Absent...)
			}
		}
	case "depositLST":
		lst := m.lstAssets()
		a.Asset = lst[uniform(t, len(lst), "lst")]
		a.Actor = actor()
		a.Amount = drawAmount(t, g, nil, "dep").String()
	case "withdrawLST":
		lst := m.lstAssets()
		a.Asset = lst[uniform(t, len(lst), "lst")]
		a.Actor = actor()
		if fp := m.fundedPositions(v, lst); len(fp) > 0 && pct(t, 85, "funded?") {
			p := fp[uniform(t, len(fp), "fp")]
			a.Actor, a.Asset = p[0], p[1]
		}
		var avail *big.Int
		if v != nil {
			if r, ok := v.Staker[m.StakerID(a.Actor, a.Asset)][m.W.AssetIDs[a.Asset]]; ok {
				avail = r.Withdrawable
			}
		}
		a.Amount = drawAmount(t, g, avail, "wd").String()
	case "delegate":
		a.Asset = anyAsset()
		a.Actor = actor()
		a.Op = op()
		if fp := m.fundedPositions(v, allAssets(m)); len(fp) > 0 && pct(t, 85, "funded?") {
			p := fp[uniform(t, len(fp), "fp")]
			a.Actor, a.Asset = p[0], p[1]
		}
		var avail *big.Int
		if v != nil {
			if r, ok := v.Staker[m.StakerID(a.Actor, a.Asset)][m.W.AssetIDs[a.Asset]]; ok {
				avail = r.Withdrawable
			}
		}
		a.Amount = drawAmount(t, g, avail, "del").String()
	case "undelegate":
		// construction: prefer an existing position
		a.Asset = anyAsset()
		a.Actor = actor()
		a.Op = op()
		var avail *big.Int
		if v != nil {
			type pos struct {
				actor, asset, op int
				val              *big.Int
			}
			var ps []pos
			for ac := 0; ac < m.NumActors(); ac++ {
				for as := range m.W.Cfg.Assets {
					for o := range m.W.Operators {
						k := m.StakerID(ac, as) + "/" + m.W.AssetIDs[as] + "/" + m.W.Operators[o].Bech32()
						if d, ok := v.Delegations[k]; ok && d.Share.Sign() > 0 {
							r := v.Operator[m.W.Operators[o].Bech32()][m.W.AssetIDs[as]]
							val := redeemable(d.Share, r.TotalShare, r.Amount)
							ps = append(ps, pos{ac, as, o, val})
						}
					}
				}
			}
			if len(ps) > 0 && pct(t, 90, "existing?") {
				p := ps[uniform(t, len(ps), "pos")]
				a.Actor, a.Asset, a.Op, avail = p.actor, p.asset, p.op, p.val
			}
		}
		a.Amount = drawAmount(t, g, avail, "und").String()
	case "associate":
		a.Actor = actor()
		a.Op = op()
		a.Lz = uint64(101 + rapid.IntRange(0, 1).Draw(t, "lz"))
		if n := len(m.W.Cfg.ExtraChains); n > 0 && pct(t, 25, "extra-chain?") {
			// the same account as a staker of a further client chain (it has no position there)
			a.Lz = m.W.Cfg.ExtraChains[uniform(t, n, "extra-lz")]
			return a
		}
		if v != nil && pct(t, 70, "assoc-existing?") {
			type pr struct {
				actor, op int
				lz        uint64
			}
			var ps []pr
			for ac := 0; ac < m.NumActors(); ac++ {
				for as := range m.W.Cfg.Assets {
					for o := range m.W.Operators {
						k := m.StakerID(ac, as) + "/" + m.W.AssetIDs[as] + "/" + m.W.Operators[o].Bech32()
						if d, ok := v.Delegations[k]; ok && d.Share.Sign() > 0 {
							ps = append(ps, pr{ac, o, m.W.Cfg.Assets[as].LzID})
						}
					}
				}
			}
			if len(ps) > 0 {
				p := ps[uniform(t, len(ps), "assoc-pair")]
				a.Actor, a.Op, a.Lz = p.actor, p.op, p.lz
			}
		}
	case "dissociate":
		a.Actor = actor()
		a.Lz = uint64(101 + rapid.IntRange(0, 1).Draw(t, "lz"))
		if n := len(m.W.Cfg.ExtraChains); n > 0 && pct(t, 25, "extra-chain?") {
			a.Lz = m.W.Cfg.ExtraChains[uniform(t, n, "extra-lz")]
			return a
		}
		if v != nil && len(v.Associations) > 0 && pct(t, 80, "dissoc-existing?") {
			ids := sortedKeys(v.Associations)
			id := ids[uniform(t, len(ids), "dissoc-id")]
			for ac := 0; ac < m.NumActors(); ac++ {
				for _, lz := range []uint64{101, 102} {
					if stakerIDOn(m, ac, lz) == id {
						a.Actor, a.Lz = ac, lz
					}
				}
			}
		}
	case "depositNST":
		a.Asset = m.nstAsset()
		a.Actor = actor()
		a.N = len(m.NstKeys[a.Actor])
		if rapid.IntRange(0, 2).Draw(t, "full32?") > 0 {
			a.Amount = new(big.Int).Mul(big.NewInt(32), pow10(int(m.W.Cfg.Assets[a.Asset].Decimals))).String()
		} else {
			a.Amount = drawAmount(t, g, nil, "nstdep").String()
		}
	case "withdrawNST":
		a.Asset = m.nstAsset()
		a.Actor = actor()
		if n := len(m.NstKeys[a.Actor]); n > 0 {
			a.N = rapid.IntRange(0, n-1).Draw(t, "nstkey")
		}
		var avail *big.Int
		if v != nil {
			if r, ok := v.Staker[m.StakerID(a.Actor, a.Asset)][m.W.AssetIDs[a.Asset]]; ok {
				avail = r.Withdrawable
			}
		}
		a.Amount = drawAmount(t, g, avail, "nstwd").String()
	case "extHold":
		a.N = uniform(t, 8, "record")
		held := false
		for _, n := range m.ExtHolds {
			if n > 0 {
				held = true
			}
		}
		a.Neg = held && pct(t, 45, "release?")
	case "nstUpdate":
		a.Asset = m.nstAsset()
		// precondition of the real caller (the oracle): the staker has an NST deposit record
		var have []int
		if v != nil {
			for ac := 0; ac < m.NumActors(); ac++ {
				if _, ok := v.Staker[m.StakerID(ac, a.Asset)][m.W.AssetIDs[a.Asset]]; ok {
					have = append(have, ac)
				}
			}
		}
		if len(have) == 0 {
			// degrade to a deposit so the history can reach NST states
			a.Kind = "depositNST"
			a.Actor = actor()
			a.N = len(m.NstKeys[a.Actor])
			a.Amount = new(big.Int).Mul(big.NewInt(32), pow10(int(m.W.Cfg.Assets[a.Asset].Decimals))).String()
			return a
		}
		a.Actor = have[uniform(t, len(have), "nstactor")]
		// prefer stakers with pending NST undelegations (the records are slashed before shares)
		if v != nil && pct(t, 60, "nst-pending?") {
			var withPending []int
			for _, ac := range have {
				for _, u := range v.Undelegations {
					if u.Staker == m.StakerID(ac, a.Asset) && u.Asset == m.W.AssetIDs[a.Asset] {
						withPending = append(withPending, ac)
						break
					}
				}
			}
			if len(withPending) > 0 {
				a.Actor = withPending[uniform(t, len(withPending), "nstactor2")]
			}
		}
		a.Neg = rapid.IntRange(0, 3).Draw(t, "neg?") > 0
		var total *big.Int
		if v != nil {
			if r, ok := v.Staker[m.StakerID(a.Actor, a.Asset)][m.W.AssetIDs[a.Asset]]; ok {
				total = r.Total
			}
		}
		// the caller's domain: the oracle reports whole-token balance deltas of at most the
		// effective balance (32) per validator of the staker
		_ = total
		d := int64(rapid.IntRange(1, 32*maxInt(1, len(m.NstKeys[a.Actor]))).Draw(t, "nstdelta"))
		a.Amount = new(big.Int).Mul(big.NewInt(d), pow10(int(m.W.Cfg.Assets[a.Asset].Decimals))).String()
		return a // no hostile variant: this is a keeper entry point, not a transaction
	case "nativeDelegate", "nativeUndelegate":
		a.Actor = actor()
		n := 1
		if rapid.IntRange(0, 3).Draw(t, "multi?") == 0 {
			n = rapid.IntRange(2, 3).Draw(t, "nops")
		}
		for i := 0; i < n; i++ {
			o := op()
			a.Ops = append(a.Ops, o)
			var avail *big.Int
			if kind == "nativeUndelegate" && v != nil {
				k := sim_nativeStakerID(m, a.Actor) + "/" + nativeAssetID + "/" + m.W.Operators[o].Bech32()
				if d, ok := v.Delegations[k]; ok && d.Share.Sign() > 0 {
					r := v.Operator[m.W.Operators[o].Bech32()][nativeAssetID]
					avail = redeemable(d.Share, r.TotalShare, r.Amount)
				}
			}
			if avail == nil {
				avail = big.NewInt(1_000_000_000_000)
			}
			a.Amounts = append(a.Amounts, drawAmount(t, g, avail, "nat").String())
		}
	case "slash":
		a.Dt = rapid.IntRange(1, maxDt).Draw(t, "dt")
		a.Key = rapid.IntRange(0, len(m.Keys)-1).Draw(t, "key")
		if rapid.IntRange(0, 3).Draw(t, "genesiskey?") > 0 {
			a.Key = rapid.IntRange(0, len(m.W.ConsKeys)-1).Draw(t, "gkey")
		}
		a.Back = int64(rapid.IntRange(0, 30).Draw(t, "back"))
		a.Infr = rapid.IntRange(1, 2).Draw(t, "infr")
		a.Power = int64(rapid.SampledFrom([]int{1, 10, 100, 1000, 1_000_000}).Draw(t, "pow"))
		if rapid.IntRange(0, 2).Draw(t, "powexact?") == 0 {
			a.Power = int64(rapid.IntRange(1, 600).Draw(t, "powr"))
		}
		a.Factor = rapid.SampledFrom([]string{"0", "0.000000000000000001", "0.01", "0.05", "0.5", "1", "0.333333333333333333"}).Draw(t, "factor")
		if v != nil && len(v.Undelegations) > 0 && pct(t, 60, "aimed-slash?") {
			// aim at an operator with pending undelegations and put the infraction height between
			// the start heights of its records, so that some are at risk and some are not
			byOp := map[string][]uint64{}
			for _, u := range v.Undelegations {
				byOp[u.Operator] = append(byOp[u.Operator], u.Start)
			}
			ops := sortedKeys(byOp)
			best := ops[uniform(t, len(ops), "aim-op")]
			for _, o := range ops {
				if len(byOp[o]) > len(byOp[best]) && pct(t, 70, "aim-most?") {
					best = o
				}
			}
			if acc, err := sdk.AccAddressFromBech32(best); err == nil {
				if found, key, err := m.C.App.OperatorKeeper.GetOperatorConsKeyForChainID(m.C.Ctx(), acc, avstypes.ChainIDWithoutRevision(m.W.Cfg.ChainID)); err == nil && found {
					for i, k := range m.Keys {
						if bytes.Equal(k.ConsAddr(), key.ToConsAddr()) {
							starts := append([]uint64{}, byOp[best]...)
							sort.Slice(starts, func(i, j int) bool { return starts[i] < starts[j] })
							h := starts[uniform(t, len(starts), "aim-start")]
							if pct(t, 25, "aim-after?") {
								h++
							}
							if back := m.C.Height + 1 - int64(h); back >= 0 {
								a.Key, a.Back = i, back
								if a.Factor == "0" {
									a.Factor = "0.05"
								}
							}
							break
						}
					}
				}
			}
		}
	case "evidence":
		a.Dt = rapid.IntRange(1, maxDt).Draw(t, "dt")
		a.Key = uniform(t, len(m.Keys), "key")
		if pct(t, 80, "genesiskey?") {
			a.Key = uniform(t, len(m.W.ConsKeys), "gkey")
		}
		a.Back = int64(rapid.IntRange(1, 12).Draw(t, "back"))
		a.Power = int64(rapid.IntRange(1, 300).Draw(t, "pow"))
		if g.Anchor && a.Key == 0 && len(m.Keys) > 1 {
			a.Key = 1 + uniform(t, len(m.Keys)-1, "anchor-key")
		}
	case "jail", "unjail":
		a.Dt = rapid.IntRange(1, maxDt).Draw(t, "dt")
		a.Key = rapid.IntRange(0, len(m.Keys)-1).Draw(t, "key")
	case "msgUnjail":
		a.Op = op()
		// prefer an operator that is jailed
		var jailed []int
		for i, o := range m.W.Operators {
			if found, key, err := m.C.App.OperatorKeeper.GetOperatorConsKeyForChainID(m.C.Ctx(), o.Acc(), m.chainIDNoRev()); err == nil && found {
				if m.C.App.OperatorKeeper.IsOperatorJailedForChainID(m.C.Ctx(), key.ToConsAddr(), m.chainIDNoRev()) {
					jailed = append(jailed, i)
				}
			}
		}
		if len(jailed) > 0 && pct(t, 80, "jailed-op?") {
			a.Op = jailed[uniform(t, len(jailed), "jailed")]
		}
	case "optIn", "setKey":
		a.Op = op()
		a.Key = rapid.IntRange(0, len(m.Keys)-1).Draw(t, "key")
		if hostile {
			a.Pad = 1 + uniform(t, 5, "bad-key") // a malformed or unsupported consensus key
		}
	case "price":
		m.drawPrice(t, g, &a)
		return a
	case "regChain":
		a.Lz = []uint64{101, 102, 103, 104, 105}[uniform(t, 5, "lz")]
		if g.WideChains && a.Lz >= 103 && pct(t, 60, "wide?") {
			a.Key = []int{32, 32, 21}[uniform(t, 3, "addrlen")] // a client chain with longer addresses
		}
	case "depositTok":
		a.Actor = actor()
		a.Op = op()
		a.Amount = []string{"1", "1000", "123456789"}[uniform(t, 3, "tokamt")]
		// deposit most of the time, then delegate / undelegate / withdraw / associate
		a.Mode = []int{0, 0, 0, 1, 1, 2, 3, 4}[uniform(t, 8, "tok-op")]
		a.Lz, a.N = 101, uniform(t, 1000, "tok")
		// prefer a token that was registered during this history
		var regs []int
		for i, b := range m.Log {
			if b.Kind == "regToken" && i < len(m.Outs) && m.Outs[i].OK {
				regs = append(regs, i)
			}
		}
		if len(regs) > 0 && pct(t, 90, "registered-token?") {
			b := m.Log[regs[uniform(t, len(regs), "which-token")]]
			a.Lz, a.N, a.Neg = b.Lz, b.N, b.Neg
			if a.Neg {
				a.Amount = []string{"32", "31", "64"}[uniform(t, 3, "nstamt")]
			}
		}
		if a.Mode > 0 {
			// the follow-up operations aim at a position that exists: an earlier accepted deposit
			var deps []int
			for i, b := range m.Log {
				if b.Kind == "depositTok" && b.Mode == 0 && i < len(m.Outs) && m.Outs[i].OK {
					deps = append(deps, i)
				}
			}
			if len(deps) > 0 && pct(t, 90, "existing-position?") {
				b := m.Log[deps[uniform(t, len(deps), "which-deposit")]]
				a.Lz, a.N, a.Actor, a.Neg = b.Lz, b.N, b.Actor, b.Neg
				a.Amount = []string{"1", b.Amount}[uniform(t, 2, "part-or-all")]
			}
		}
	case "regToken":
		a.Lz = []uint64{101, 102}[uniform(t, 2, "lz")]
		if g.WideChains && pct(t, 50, "new-chain?") {
			a.Lz = []uint64{103, 104, 105}[uniform(t, 3, "lz2")]
			a.Neg = pct(t, 30, "native-token?") // the native restaking token of that chain
		}
		a.N = uniform(t, 1000, "tok")
		if pct(t, 15, "known-token-name?") {
			// the name of a token the oracle already prices: the new asset is bound to its feed
			a.N = 1 + uniform(t, 3, "known-token")
		}
		if hostile || pct(t, 35, "interval?") {
			a.Ident = 1 + uniform(t, 6, "interval") // explicit feeder interval in the oracle info, incl. "0" and intervals shorter than a round's window
		}
		if hostile || pct(t, 20, "decimals?") {
			a.Dec = []int32{18, 19, 77, 255}[uniform(t, 4, "decimals")] // at and above the maximum the assets module accepts
		}
	case "updToken":
		lst := m.lstAssets()
		a.Asset = lst[uniform(t, len(lst), "lst")]
		a.N = uniform(t, 1000, "meta")
	case "regOperator":
		// somebody who is not an operator yet: a staker, a contract account or the unrelated account
		cands := []int{}
		for i := range m.idents() {
			if i < len(m.W.AVSKeys) || i >= len(m.W.AVSKeys)+len(m.W.Operators) {
				cands = append(cands, i)
			}
		}
		a.Ident = cands[uniform(t, len(cands), "who")]
		if pct(t, 60, "earnings-addresses?") {
			a.N = 1 + uniform(t, 5, "earnings")
		}
	case "setUnbonding":
		// a parameter update that changes the unbonding period (possible for anybody on testnet
		// chain ids; on mainnet ids it is rejected)
		a.Kind = "updateParams"
		a.Module = "dogfood"
		a.Ident = uniform(t, len(m.idents()), "who")
		a.N = 1 + uniform(t, 4, "newN")
	case "setValsetParams":
		// a parameter update that changes the size of the validator set or the eligibility
		// threshold (possible for anybody on testnet chain ids; rejected on mainnet ids)
		a.Kind = "updateParams"
		a.Module = "dogfood"
		a.Ident = uniform(t, len(m.idents()), "who")
		a.N = []int{-1, -1, -2, -3, -4}[uniform(t, 5, "which")]
	case "updateParams":
		a.Module = paramModules[uniform(t, len(paramModules), "module")]
		attacker := uniform(t, len(m.idents()), "attacker")
		if pct(t, 50, "own-authority?") {
			a.Ident = attacker // names itself as authority and signs properly
		} else {
			a.Ident = -1 // names the governance account, signs with its own key or not at all
			a.Signer = 1 + attacker
			a.Forge = []int{0, 2}[uniform(t, 2, "forge")]
		}
	case "ethTx":
		m.drawEth(t, g, &a)
		return a
	case "rawCall":
		m.drawRawCall(t, g, &a)
		return a
	case "govSubmit", "govDeposit", "govVote":
		m.drawGov(t, g, &a)
		return a
	case "avsRegister", "avsUpdate", "avsDeregister", "avsOptIn", "avsOptOut", "avsBLS", "avsTask", "avsResult", "avsChallenge":
		m.drawAvs(t, g, &a)
		return a
	case "payFee":
		a.Actor = actor()
		a.Amount = []string{"0", "1", "999", "1000000000000000", "123456789123456789", "50000000000000000000"}[uniform(t, 6, "fee")]
	case "optOut":
		a.Op = op()
		// never let the last opted-in operator leave: a chain without validators is out of scope
		in := 0
		for _, o := range m.W.Operators {
			if m.C.App.OperatorKeeper.IsOptedIn(m.C.Ctx(), o.Bech32(), m.W.AvsAddr) {
				in++
			}
		}
		if in <= 1 && m.C.App.OperatorKeeper.IsOptedIn(m.C.Ctx(), m.W.Operators[a.Op].Bech32(), m.W.AvsAddr) {
			a = Action{Kind: "nextBlock", Dt: 7}
		}
	}
	if g.Anchor && len(m.W.Operators) > 1 {
		switch a.Kind {
		case "optOut", "setKey", "optIn":
			if a.Op == 0 {
				a.Op = 1 + uniform(t, len(m.W.Operators)-1, "anchor-op")
			}
		case "slash", "jail":
			if a.Key == 0 {
				a.Key = 1 + uniform(t, len(m.Keys)-1, "anchor-key")
			}
		case "undelegate":
			if a.Actor == len(m.W.Stakers) && a.Op == 0 {
				a.Actor = uniform(t, len(m.W.Stakers), "anchor-actor")
			}
		}
	}
	if g.lastExtreme {
		a.Hostile = true
	}
	if hostile {
		a.Hostile = true
		a.Caller = rapid.IntRange(0, 1).Draw(t, "hostile-caller")
		switch rapid.IntRange(0, 3).Draw(t, "hostile-kind") {
		case 0:
			if a.Amount != "" {
				a.Amount = "0"
			}
		case 1:
			if a.Amount != "" {
				if g.CapBits > 0 {
					a.Amount = new(big.Int).Sub(pow2(uint(g.CapBits)), big.NewInt(1)).String()
					if g.Capped != nil {
						*g.Capped++
					}
				} else {
					a.Amount = new(big.Int).Sub(pow2(256), big.NewInt(1)).String()
				}
			}
		}
	}
	return a
}

func stakerIDOn(m *Machine, actor int, lz uint64) string {
	return simStakerID(m.ActorAddr(actor), lz)
}

const nativeAssetID = "0x0000000000000000000000000000000000000000_0x0"

func sim_nativeStakerID(m *Machine, actor int) string {
	return stakerIDNative(m.ActorAddr(actor).Bytes())
}

func pow10(n int) *big.Int { return new(big.Int).Exp(big.NewInt(10), big.NewInt(int64(n)), nil) }

// redeemable = floor(share * amount / totalShare), computed with exact integers from the
// 18-decimal fixed-point raw values (the scale cancels).
func redeemable(share, totalShare, amount *big.Int) *big.Int {
	if totalShare == nil || totalShare.Sign() == 0 || share == nil || amount == nil {
		return big.NewInt(0)
	}
	v := new(big.Int).Mul(share, amount)
	return v.Div(v, totalShare)
}

// drawPrice draws an oracle price submission. Most fields are right most of the time so that
// submissions get past admission; each field is perturbed with a small probability.
func (m *Machine) drawPrice(t *rapid.T, g *GenOpts, a *Action) {
	c := m.C
	ctx := c.Ctx()
	// validator key: mostly keys that are in the validator set
	var valKeys []int
	for i, k := range m.Keys {
		if c.ValSet.HasAddress(k.ConsAddr()) {
			valKeys = append(valKeys, i)
		}
	}
	a.Key = uniform(t, len(m.Keys), "pkey")
	if len(valKeys) > 0 && pct(t, 85, "valkey?") {
		a.Key = valKeys[uniform(t, len(valKeys), "vkey")]
	} else if len(m.W.ConsKeys) > 0 && pct(t, 60, "genesiskey?") {
		// a genesis validator key: possibly a former validator by now
		a.Key = uniform(t, len(m.W.ConsKeys), "gkey")
	}
	feeders := m.W.Feeders
	f := feeders[uniform(t, len(feeders), "feeder")]
	// prefer a feeder that is running at this height
	var running []sim.FeederInfo
	for _, x := range feeders {
		if uint64(c.Height) > x.StartBaseBlock && (x.EndBlock == 0 || uint64(c.Height) <= x.EndBlock) {
			running = append(running, x)
		}
	}
	if len(running) > 0 && pct(t, 85, "running?") {
		f = running[uniform(t, len(running), "rfeeder")]
	}
	a.Feeder = f.ID
	// the round a submission in the block in progress belongs to
	h := uint64(c.Height)
	based := uint64(0)
	if h > f.StartBaseBlock && f.Interval > 0 {
		based = (h - 1) - ((h-1)-f.StartBaseBlock)%f.Interval
	}
	a.Based = based
	nonce := int32(1)
	if n, found := c.App.OracleKeeper.GetNonce(ctx, sdk.ConsAddress(m.Keys[a.Key].ConsAddr()).String()); found {
		for _, e := range n.NonceList {
			if e.FeederID == a.Feeder {
				nonce = int32(e.Value) + 1
			}
		}
	}
	a.PNonce = nonce
	a.Src = 1
	a.Dec = m.W.Cfg.Assets[f.Token-1].PriceDecimal
	a.Ts = c.Time.UTC().Format("2006-01-02 15:04:05")
	nd := 1
	if pct(t, 25, "twodets?") {
		nd = 2
	}
	detPool := []string{"1", "2", "3"}
	pricePool := []string{"100", "100", "100", "101", "99"}
	if len(g.PricePool) > 0 {
		pricePool = g.PricePool
	}
	for i := 0; i < nd; i++ {
		a.Dets = append(a.Dets, detPool[uniform(t, len(detPool), "det")])
		a.Prices = append(a.Prices, pricePool[uniform(t, len(pricePool), "pval")])
	}
	if nd == 2 && a.Dets[0] == a.Dets[1] {
		a.Dets[1] = a.Dets[1] + "0"
	}
	if g.TwoSignerPct > 0 && len(m.Keys) > 1 && pct(t, g.TwoSignerPct, "two-signer?") {
		// an honest two-signer transaction: the same report by two validators, each signing itself
		b := (a.Key + 1 + uniform(t, len(m.Keys)-1, "cosigner")) % len(m.Keys)
		a.Co, a.CoOwn, a.CoNonce = b+1, true, 1
		if n, found := c.App.OracleKeeper.GetNonce(ctx, sdk.ConsAddress(m.Keys[b].ConsAddr()).String()); found {
			for _, e := range n.NonceList {
				if e.FeederID == a.Feeder {
					a.CoNonce = int32(e.Value) + 1
				}
			}
		}
		return
	}
	if os.Getenv("VERIF_FORCE_SECOND_MSG") == "often" && pct(t, 15, "forced-second?") {
		// investigation aid: the failing-second-message variant at a high rate in any world
		a.Twice, a.N, a.Hostile = true, 1, true
		return
	}
	// perturbations
	if pct(t, g.HostilePct, "perturb?") {
		a.Hostile = true
		switch uniform(t, 16, "perturb") {
		case 14, 15:
			// a second message in the name of another validator, "co-signed" with the first signer's key
			if len(m.Keys) > 1 {
				b := (a.Key + 1 + uniform(t, len(m.Keys)-1, "cosigner")) % len(m.Keys)
				a.Co = b + 1
				// (half of the time, where two-signer transactions are modelled: the second validator signs itself)
				a.CoOwn = g.TwoSignerPct > 0 && pct(t, 50, "honest-cosigner?")
				a.CoNonce = 1
				if n, found := c.App.OracleKeeper.GetNonce(ctx, sdk.ConsAddress(m.Keys[b].ConsAddr()).String()); found {
					for _, e := range n.NonceList {
						if e.FeederID == a.Feeder {
							a.CoNonce = int32(e.Value) + 1
						}
					}
				}
			}
		case 12, 13:
			// a price that is not a positive decimal integer
			a.Prices[uniform(t, len(a.Prices), "badprice-i")] = []string{"", "abc", "-5", "1e5", "0x10", " 7", "0", "1.5", "99999999999999999999999999999999999999999999999999999999999999999999999999999"}[uniform(t, 9, "badprice")]
		case 0:
			a.Based = based + f.Interval
		case 1:
			if based >= f.Interval {
				a.Based = based - f.Interval
			} else {
				a.Based = based + 1
			}
		case 2:
			a.PNonce = nonce + int32(uniform(t, 3, "nplus")) + 1
		case 3:
			a.PNonce = nonce - 1
		case 4:
			a.Ts = c.Time.UTC().Add(time.Duration([]int{5, 6, 60, -30}[uniform(t, 4, "tsoff")]) * time.Second).Format("2006-01-02 15:04:05")
		case 5:
			a.Ts = []string{"", "2024-13-45 99:99:99", "yesterday"}[uniform(t, 3, "tsbad")]
		case 6:
			a.Dec = a.Dec + 1
		case 7:
			a.Src = []uint64{0, 2, 1}[uniform(t, 3, "src")]
		case 8:
			a.Sig = 1 + uniform(t, 3, "sig")
		case 9:
			a.Pad = []int{600, 820, 900, 1100}[uniform(t, 4, "pad")]
		case 10:
			a.Twice = true
			if (g.FailingSecondMsg || os.Getenv("VERIF_FORCE_SECOND_MSG") != "") && pct(t, 60, "next-nonce?") {
				if g.AvoidFailingSecondMsg != nil {
					*g.AvoidFailingSecondMsg++ // listed finding still reproduces: kept out of the histories, counted
				} else {
					a.N = 1 // the second message carries the validator's next nonce
				}
			}
		case 11:
			a.Feeder = []uint64{0, 9, uint64(len(m.W.Cfg.Assets))}[uniform(t, 3, "badfeeder")]
		}
	}
	if pct(t, 12, "checktx?") {
		a.Mode = 1 + uniform(t, 2, "mode")
	}
}
