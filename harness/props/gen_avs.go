package props

import (
	"encoding/hex"
	"fmt"
	"strings"

	avstypes "github.com/ExocoreNetwork/exocore/x/avs/types"
	"pgregory.net/rapid"
)

// avsChainView is what the generator reads from the chain to build mostly-valid AVS actions
// (construction instead of rejection). The oracle never uses it.
type avsChainView struct {
	avs     []avstypes.AVSInfo
	tasks   []avstypes.TaskInfo
	results []avstypes.TaskResultInfo
}

func (m *Machine) avsView() avsChainView {
	var v avsChainView
	ctx := m.C.Ctx()
	k := m.C.App.AVSManagerKeeper
	k.IterateAVSInfo(ctx, func(_ int64, info avstypes.AVSInfo) bool {
		if strings.ToLower(info.AvsAddress) != m.W.AvsAddr {
			v.avs = append(v.avs, info)
		}
		return false
	})
	k.IterateTaskAVSInfo(ctx, func(_ int64, t avstypes.TaskInfo) bool { v.tasks = append(v.tasks, t); return false })
	k.IterateResultInfo(ctx, func(_ int64, r avstypes.TaskResultInfo) bool { v.results = append(v.results, r); return false })
	return v
}

// identOfAddr finds the identity index of a hex or bech32 address (-1 if none).
func (m *Machine) identOfAddr(s string) int {
	for i, k := range m.idents() {
		if strings.EqualFold(k.Addr.Hex(), s) || k.Bech32() == s {
			return i
		}
	}
	return -1
}

func (m *Machine) epochIDs() []string {
	var ids []string
	for _, e := range m.C.App.EpochsKeeper.AllEpochInfos(m.C.Ctx()) {
		ids = append(ids, e.Identifier)
	}
	return ids
}

// drawAvs fills the AVS fields of an action of the given kind.
func (m *Machine) drawAvs(t *rapid.T, g *GenOpts, a *Action) {
	x := &AvsAct{}
	a.Avs = x
	v := m.avsView()
	nIdent := len(m.idents())
	nAVS := len(m.W.AVSKeys)
	anyIdent := func(l string) int { return uniform(t, nIdent, l) }
	avsIdent := func(l string) int {
		if nAVS == 0 || pct(t, 8, l+"-other?") {
			return anyIdent(l)
		}
		return uniform(t, nAVS, l)
	}
	opIdent := func(l string) int {
		if pct(t, 8, l+"-nonop?") {
			return anyIdent(l)
		}
		return m.OperatorIdent(uniform(t, len(m.W.Operators), l))
	}
	existingAVS := func(l string) (int, *avstypes.AVSInfo) {
		if len(v.avs) == 0 || pct(t, 7, l+"-unreg?") {
			return avsIdent(l), nil
		}
		info := v.avs[uniform(t, len(v.avs), l)]
		return m.identOfAddr(info.AvsAddress), &info
	}
	ownerOf := func(info *avstypes.AVSInfo, l string) int {
		if info == nil || len(info.AvsOwnerAddress) == 0 || pct(t, 8, l+"-nonowner?") {
			return anyIdent(l)
		}
		return m.identOfAddr(info.AvsOwnerAddress[uniform(t, len(info.AvsOwnerAddress), l)])
	}
	periods := func(l string) uint64 { return uint64([]int{0, 0, 1, 1, 1, 2, 3}[uniform(t, 7, l)]) }
	fillAVSParams := func() {
		x.Name = fmt.Sprintf("avs-%d", uniform(t, 5, "name"))
		if pct(t, 3, "noname?") {
			x.Name = ""
		}
		x.MinStake = uint64(1 + uniform(t, 3, "minstake"))
		if pct(t, 3, "minstake0?") {
			x.MinStake = 0
		}
		x.Task = avsIdent("task")
		if pct(t, 60, "task=self?") {
			x.Task = x.From
		}
		if len(v.avs) > 0 && pct(t, 12, "task-collide?") {
			if i := m.identOfAddr(v.avs[uniform(t, len(v.avs), "collide")].TaskAddr); i >= 0 {
				x.Task = i
			}
		}
		x.Slash, x.Reward = anyIdent("slash"), anyIdent("reward")
		if pct(t, 3, "zeroaddr?") {
			x.Slash = -1
		}
		nOwners := 1 + uniform(t, 3, "nowners")
		for i := 0; i < nOwners; i++ {
			x.Owners = append(x.Owners, anyIdent("owner"))
		}
		if pct(t, 88, "sender-owner?") {
			x.Owners[0] = x.Sender
		}
		nAssets := 1 + uniform(t, len(m.W.AssetIDs), "nassets")
		for i := 0; i < nAssets; i++ {
			x.Assets = append(x.Assets, uniform(t, len(m.W.AssetIDs), "asset"))
		}
		if pct(t, 75, "asset0?") {
			x.Assets[0] = 0 // the genesis self stake of the operators is in asset 0
		}
		if pct(t, 4, "bogus-asset?") {
			x.Assets = append(x.Assets, -1)
		}
		if g.WideChains {
			// a token that was registered during this history (index 100+k = the k-th of them)
			n := 0
			for i, b := range m.Log {
				if b.Kind == "regToken" && i < len(m.Outs) && m.Outs[i].OK {
					n++
				}
			}
			if n > 0 && pct(t, 40, "registered-token-asset?") {
				x.Assets = append(x.Assets, 100+uniform(t, n, "which-registered"))
			}
		}
		ids := m.epochIDs()
		x.Epoch = ids[uniform(t, len(ids), "epoch")]
		if len(m.W.Cfg.ExtraEpochs) > 0 && pct(t, 70, "fast-epoch?") {
			x.Epoch = m.W.Cfg.ExtraEpochs[uniform(t, len(m.W.Cfg.ExtraEpochs), "fast")].Identifier
		}
		if pct(t, 4, "bad-epoch?") {
			x.Epoch = "fortnight"
		}
		x.MinSelf = []uint64{0, 0, 0, 0, 1, 1, 50, 150, 1000000}[uniform(t, 9, "minself")]
		x.Unbond = uint64(1 + uniform(t, 3, "unbond"))
		if pct(t, 3, "unbond0?") {
			x.Unbond = 0
		}
		x.Params = []uint64{uint64(uniform(t, 3, "p0")), uint64(uniform(t, 3, "p1")), uint64(uniform(t, 10, "p2")), uint64(uniform(t, 10, "p3"))}
		if pct(t, 2, "short-params?") {
			x.Params = x.Params[:2]
		}
	}
	switch a.Kind {
	case "avsRegister":
		x.From = avsIdent("from")
		x.Sender = anyIdent("sender")
		fillAVSParams()
	case "avsUpdate":
		var info *avstypes.AVSInfo
		x.From, info = existingAVS("from")
		x.Sender = ownerOf(info, "sender")
		fillAVSParams()
		if info != nil && pct(t, 70, "keep-task?") {
			if i := m.identOfAddr(info.TaskAddr); i >= 0 {
				x.Task = i
			}
		}
		if info != nil && pct(t, 70, "keep-epoch?") {
			x.Epoch = info.EpochIdentifier
		}
	case "avsDeregister":
		var info *avstypes.AVSInfo
		x.From, info = existingAVS("from")
		x.Sender = ownerOf(info, "sender")
		if info != nil && pct(t, 90, "name-ok?") {
			x.Name = info.Name
		} else {
			x.Name = "avs-x"
		}
	case "avsOptIn", "avsOptOut":
		from, info := existingAVS("avs")
		op := opIdent("op")
		if info != nil && pct(t, 80, "fitting-op?") {
			// an operator whose opt-in state fits the action
			var fit []int
			for i := range m.W.Operators {
				in := m.C.App.OperatorKeeper.IsOptedIn(m.C.Ctx(), m.W.Operators[i].Bech32(), info.AvsAddress)
				if in == (a.Kind == "avsOptOut") {
					fit = append(fit, i)
				}
			}
			if len(fit) > 0 {
				op = m.OperatorIdent(fit[uniform(t, len(fit), "fit")])
			}
		}
		viaMsg := pct(t, 50, "via-msg?")
		if !viaMsg && g.AvoidSenderNotSigner != nil {
			viaMsg = true
			*g.AvoidSenderNotSigner++
		}
		if viaMsg {
			x.Via = 1
			x.Target = from
			x.From = op
		} else {
			x.From = from
			x.Sender = op
		}
	case "avsBLS":
		x.Sender = opIdent("op")
		if pct(t, 75, "keyless?") {
			var keyless []int
			for i := range m.W.Operators {
				if !m.C.App.AVSManagerKeeper.IsExistPubKey(m.C.Ctx(), m.W.Operators[i].Bech32()) {
					keyless = append(keyless, i)
				}
			}
			if len(keyless) > 0 {
				x.Sender = m.OperatorIdent(keyless[uniform(t, len(keyless), "keyless")])
			}
		}
		x.From = x.Sender
		if pct(t, 25, "third-party?") {
			if g.AvoidSenderNotSigner != nil {
				*g.AvoidSenderNotSigner++
			} else {
				x.From = anyIdent("from")
			}
		}
		x.Name = "key"
		x.BlsKey = x.Sender - len(m.W.AVSKeys)
		if x.BlsKey < 0 || x.BlsKey >= len(m.W.Operators) || pct(t, 5, "otherkey?") {
			x.BlsKey = len(m.W.Operators) + uniform(t, 3, "spare")
		}
		x.SigMode = []int{0, 0, 0, 0, 0, 0, 0, 1, 2, 3}[uniform(t, 10, "sigmode")]
	case "avsTask":
		_, info := existingAVS("avs")
		if pct(t, 80, "valued-avs?") {
			var valued []int
			for i := range v.avs {
				if val, err := m.C.App.OperatorKeeper.GetAVSUSDValue(m.C.Ctx(), v.avs[i].AvsAddress); err == nil && val.IsPositive() {
					valued = append(valued, i)
				}
			}
			if len(valued) > 0 {
				info = &v.avs[valued[uniform(t, len(valued), "valued")]]
			}
		}
		x.From = avsIdent("from")
		if info != nil {
			if i := m.identOfAddr(info.TaskAddr); i >= 0 {
				x.From = i
			}
		}
		x.Sender = ownerOf(info, "sender")
		x.Name = fmt.Sprintf("task-%d", uniform(t, 4, "tname"))
		h := make([]byte, 32)
		for i := range h {
			h[i] = byte(uniform(t, 256, "h"))
		}
		x.Hash = hex.EncodeToString(h)
		x.Resp, x.Stat, x.Chall = periods("resp"), periods("stat"), periods("chall")
		x.Thr = uint64(uniform(t, 101, "thr"))
	case "avsResult":
		x.Operator = opIdent("op")
		x.Stage = avstypes.TwoPhaseCommitOne
		x.TaskID = 1
		x.Target = avsIdent("taskaddr")
		x.SigNum = int64(uniform(t, 4, "num"))
		// candidates: (operator, task, stage) combinations the current epoch allows
		type cand struct {
			op    int
			task  avstypes.TaskInfo
			stage string
		}
		var cands []cand
		var committed *avsCommitRec
		var probes []cand
		for ti := len(v.tasks) - 1; ti >= 0 && ti >= len(v.tasks)-6; ti-- {
			task := v.tasks[ti]
			avs := m.C.App.AVSManagerKeeper.GetAVSInfoByTaskAddress(m.C.Ctx(), task.TaskContractAddress)
			e, ok := m.C.App.EpochsKeeper.GetEpochInfo(m.C.Ctx(), avs.EpochIdentifier)
			if !ok {
				continue
			}
			endResp := int64(task.StartingEpoch + task.TaskResponsePeriod)
			endStat := endResp + int64(task.TaskStatisticalPeriod)
			for oi := range m.W.Operators {
				op := m.W.Operators[oi].Bech32()
				if !m.C.App.AVSManagerKeeper.IsExistPubKey(m.C.Ctx(), op) {
					continue
				}
				var have *avstypes.TaskResultInfo
				for ri := range v.results {
					r := v.results[ri]
					if r.OperatorAddress == op && r.TaskContractAddress == task.TaskContractAddress && r.TaskId == task.TaskId {
						have = &r
					}
				}
				switch {
				case e.CurrentEpoch <= endResp && have == nil:
					cands = append(cands, cand{oi, task, avstypes.TwoPhaseCommitOne})
				case e.CurrentEpoch > endResp && e.CurrentEpoch <= endStat && have != nil:
					cands = append(cands, cand{oi, task, avstypes.TwoPhaseCommitTwo})
				case e.CurrentEpoch <= endResp && have != nil && have.Stage == avstypes.TwoPhaseCommitOne:
					// an otherwise complete phase-two result while the response period is still
					// open (its last epoch included): must be refused as too early
					probes = append(probes, cand{oi, task, avstypes.TwoPhaseCommitTwo})
				}
			}
		}
		var reveal []cand
		for _, c := range cands {
			if c.stage == avstypes.TwoPhaseCommitTwo {
				reveal = append(reveal, c)
			}
		}
		if len(reveal) > 0 && pct(t, 70, "reveal-first?") {
			cands = reveal // the rarer kind
		}
		if len(probes) > 0 && pct(t, 25, "early-reveal?") {
			cands = probes
		}
		if len(cands) > 0 && pct(t, 80, "fitting?") {
			c := cands[uniform(t, len(cands), "cand")]
			x.Operator = m.OperatorIdent(c.op)
			x.Stage = c.stage
			x.TaskID = c.task.TaskId
			if i := m.identOfAddr(c.task.TaskContractAddress); i >= 0 {
				x.Target = i
			}
			if cm, ok := m.avsCommit[resKey(m.W.Operators[c.op].Bech32(), c.task.TaskContractAddress, c.task.TaskId)]; ok && pct(t, 90, "reveal-committed?") {
				committed = &cm
			}
		} else if len(v.tasks) > 0 && !pct(t, 10, "unknown-task?") {
			task := v.tasks[len(v.tasks)-1-uniform(t, minInt(len(v.tasks), 4), "task")]
			if i := m.identOfAddr(task.TaskContractAddress); i >= 0 {
				x.Target = i
			}
			x.TaskID = task.TaskId
			x.Stage = []string{avstypes.TwoPhaseCommitOne, avstypes.TwoPhaseCommitTwo}[uniform(t, 2, "stage")]
		}
		x.From = x.Operator
		if pct(t, 4, "forged-from?") {
			x.From = opIdent("from")
		}
		x.BlsKey = x.Operator - len(m.W.AVSKeys)
		if x.BlsKey < 0 {
			x.BlsKey = len(m.W.Operators)
		}
		x.SigID = x.TaskID
		x.RespID, x.Num = x.SigID, x.SigNum
		if x.Stage == avstypes.TwoPhaseCommitTwo {
			x.WithResp = true
			if pct(t, 5, "resp-other-id?") {
				x.RespID = x.TaskID + 1
				x.SigID = x.RespID
			}
			if pct(t, 4, "no-resp?") {
				x.WithResp = false
			}
		} else if pct(t, 4, "p1-with-resp?") {
			x.WithResp = true
		}
		x.SigMode = []int{0, 0, 0, 0, 0, 0, 0, 0, 0, 0, 0, 0, 0, 0, 0, 1, 2, 3}[uniform(t, 18, "sigmode")]
		if committed != nil {
			// reveal exactly what phase one committed to (which may itself have been a bad signature)
			x.SigNum, x.SigID, x.SigMode, x.BlsKey = committed.SigNum, committed.SigID, committed.SigMode, committed.BlsKey
			x.RespID, x.Num = x.SigID, x.SigNum
			if pct(t, 4, "reveal-other-number?") {
				x.Num++
			}
		}
		if pct(t, 2, "bad-stage?") {
			x.Stage = "3"
		}
		if pct(t, 1, "nil-info?") {
			x.NilInfo = true
		}
	case "avsChallenge":
		x.From = avsIdent("from")
		x.Operator = opIdent("op")
		x.TaskID = 1
		var info *avstypes.AVSInfo
		// candidates: revealed results whose challenge period is open
		var open []avstypes.TaskResultInfo
		for _, r := range v.results {
			if r.Stage != avstypes.TwoPhaseCommitTwo || m.C.App.AVSManagerKeeper.IsExistTaskChallengedInfo(m.C.Ctx(), r.OperatorAddress, r.TaskContractAddress, r.TaskId) {
				continue
			}
			task, err := m.C.App.AVSManagerKeeper.GetTaskInfo(m.C.Ctx(), fmt.Sprint(r.TaskId), r.TaskContractAddress)
			if err != nil {
				continue
			}
			avs := m.C.App.AVSManagerKeeper.GetAVSInfoByTaskAddress(m.C.Ctx(), r.TaskContractAddress)
			if e, ok := m.C.App.EpochsKeeper.GetEpochInfo(m.C.Ctx(), avs.EpochIdentifier); ok {
				endStat := int64(task.StartingEpoch + task.TaskResponsePeriod + task.TaskStatisticalPeriod)
				if e.CurrentEpoch > endStat && e.CurrentEpoch <= endStat+int64(task.TaskChallengePeriod) {
					open = append(open, r)
				}
			}
		}
		pick := func(r avstypes.TaskResultInfo) {
			if i := m.identOfAddr(r.TaskContractAddress); i >= 0 {
				x.From = i
			}
			if i := m.identOfAddr(r.OperatorAddress); i >= 0 {
				x.Operator = i
			}
			x.TaskID = r.TaskId
			for i := range v.avs {
				if v.avs[i].TaskAddr == r.TaskContractAddress {
					info = &v.avs[i]
				}
			}
		}
		if len(open) > 0 && pct(t, 80, "open?") {
			pick(open[uniform(t, len(open), "open")])
		} else if len(v.results) > 0 && !pct(t, 6, "no-result?") {
			pick(v.results[uniform(t, len(v.results), "res")])
		}
		x.Sender = ownerOf(info, "sender")
		if pct(t, 5, "wrong-hash?") {
			x.HashMode = 1
		}
		if pct(t, 5, "wrong-resp-hash?") {
			x.RespHashMode = 1
		}
	}
}

// avsOpenWindows counts the phase-two submissions and challenges the current epoch allows.
func (m *Machine) avsOpenWindows(v avsChainView) (reveals, challenges int) {
	ctx := m.C.Ctx()
	k := m.C.App.AVSManagerKeeper
	for _, r := range v.results {
		task, err := k.GetTaskInfo(ctx, fmt.Sprint(r.TaskId), r.TaskContractAddress)
		if err != nil {
			continue
		}
		avs := k.GetAVSInfoByTaskAddress(ctx, r.TaskContractAddress)
		e, ok := m.C.App.EpochsKeeper.GetEpochInfo(ctx, avs.EpochIdentifier)
		if !ok {
			continue
		}
		endResp := int64(task.StartingEpoch + task.TaskResponsePeriod)
		endStat := endResp + int64(task.TaskStatisticalPeriod)
		if r.Stage == avstypes.TwoPhaseCommitOne && e.CurrentEpoch > endResp && e.CurrentEpoch <= endStat {
			reveals++
		}
		if r.Stage == avstypes.TwoPhaseCommitTwo && e.CurrentEpoch > endStat && e.CurrentEpoch <= endStat+int64(task.TaskChallengePeriod) &&
			!k.IsExistTaskChallengedInfo(ctx, r.OperatorAddress, r.TaskContractAddress, r.TaskId) {
			challenges++
		}
	}
	return
}

func minInt(a, b int) int {
	if a < b {
		return a
	}
	return b
}
