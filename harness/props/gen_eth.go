package props

import (
	"math/big"

	"pgregory.net/rapid"
)

// drawEth fills the fields of an "ethTx" action: every transaction type, prices around the
// base fee and the minimum gas price, gas limits around the intrinsic cost and the block limit,
// values around the sender's balance, nonces around the account's nonce, and every kind of
// recipient (account, contracts that succeed, revert, run out of gas, forwarders into the
// restaking precompiles, contract creation).
func (m *Machine) drawEth(t *rapid.T, g *GenOpts, a *Action) {
	c := m.C
	if c.Height <= 1 {
		// the mempool check of the very first block sees an empty state (nothing is committed
		// yet): transactions start with block 2
		*a = Action{Kind: "nextBlock", Dt: 1 + uniform(t, 5, "dt")}
		return
	}
	x := &EthAct{}
	a.Eth = x
	ctx := c.Ctx()
	nIdent := len(m.idents())
	x.From = uniform(t, nIdent-1, "from") // everybody but the gateway account (last identity)
	x.Type = uniform(t, 3, "type")
	x.Target = []int{0, 0, 1, 1, 2, 3, 4, 4, 4, 4, 5, 5, 6, 7}[uniform(t, 14, "target")]
	if m.W.Cfg.EVM == nil || !m.W.Cfg.EVM.Contracts {
		x.Target = ethTargetTransfer
	}
	x.To = uniform(t, nIdent, "to")
	x.Word = 1 + uniform(t, 250, "word")
	switch x.Target {
	case ethTargetAssetsForwarder, ethTargetDelegationForwarder, ethTargetPrecompileDirect:
		x.Mode = []int{0, 0, 0, 1, 1, 2, 3}[uniform(t, 7, "mode")]
		if x.Target != ethTargetPrecompileDirect {
			// how the forwarder calls the precompile: CALL, STATICCALL, DELEGATECALL
			x.Mode |= []int{0, 0, 0, 1, 2}[uniform(t, 5, "call-kind")] << 4
		}
		x.Inner = []string{"depositLST", "depositLST", "withdrawLST", "delegate", "delegate", "undelegate", "registerToken"}[uniform(t, 7, "inner")]
		lst := m.lstAssets()
		x.Asset = lst[uniform(t, len(lst), "asset")]
		x.Actor = uniform(t, m.NumActors(), "actor")
		x.Op = uniform(t, len(m.W.Operators), "op")
		x.Amount = []string{"1", "1000", "1000000", "123456789"}[uniform(t, 4, "amount")]
	case ethTargetCreate:
		x.Mode = uniform(t, 2, "create-mode")
	}
	// fee market figures in force
	fp := c.App.FeeMarketKeeper.GetParams(ctx)
	base := big.NewInt(0)
	if !fp.NoBaseFee {
		if b := c.App.FeeMarketKeeper.GetBaseFee(ctx); b != nil {
			base = b
		}
	}
	// the mempool check runs against the last committed state, whose base fee is the previous
	// block's: a price has to clear both to be admitted and included
	if !fp.NoBaseFee {
		if b := c.App.FeeMarketKeeper.GetBaseFee(c.CheckCtx()); b != nil && b.Cmp(base) > 0 {
			base = b
		}
	}
	minPrice := fp.MinGasPrice.Ceil().TruncateInt().BigInt()
	floor := new(big.Int).Set(base)
	if minPrice.Cmp(floor) > 0 {
		floor = minPrice
	}
	priceAround := func(l string) *big.Int {
		switch uniform(t, 10, l) {
		case 0:
			if floor.Sign() > 0 {
				return new(big.Int).Sub(floor, big.NewInt(1)) // just too low
			}
			return big.NewInt(0)
		case 1:
			return new(big.Int).Set(floor) // exactly the floor
		case 2:
			return new(big.Int).Add(floor, big.NewInt(1))
		case 3:
			return new(big.Int).Mul(new(big.Int).Add(floor, big.NewInt(1)), big.NewInt(1000))
		default:
			return new(big.Int).Add(floor, big.NewInt(int64(1+uniform(t, 2_000_000_000, l+"-delta"))))
		}
	}
	if x.Type == 2 {
		cap := priceAround("feecap")
		x.FeeCap = cap.String()
		// the tip that lifts base fee + tip to the minimum gas price
		needed := new(big.Int).Sub(minPrice, base)
		if needed.Sign() < 0 {
			needed.SetInt64(0)
		}
		switch uniform(t, 8, "tip") {
		case 0:
			x.TipCap = "0"
		case 1:
			x.TipCap = cap.String()
		case 2:
			if needed.Sign() > 0 {
				x.TipCap = new(big.Int).Sub(needed, big.NewInt(1)).String() // just too low
			} else {
				x.TipCap = "1"
			}
		case 3:
			x.TipCap = needed.String() // exactly enough
		default:
			x.TipCap = new(big.Int).Add(needed, big.NewInt(int64(uniform(t, 1_000_000_000, "tipv")))).String()
		}
		if bigOf(x.TipCap).Cmp(cap) > 0 {
			x.TipCap = cap.String() // tip above cap is malformed, not an admission question
		}
	} else {
		x.Price = priceAround("price").String()
	}
	// gas limit
	intrinsic := uint64(21000)
	_, data, _ := m.ethCalldata(x)
	for _, by := range data {
		if by == 0 {
			intrinsic += 4
		} else {
			intrinsic += 16
		}
	}
	if x.Target == ethTargetCreate {
		intrinsic += 32000
	}
	if x.Type != 0 && pct(t, 30, "access?") {
		x.Access = true
		intrinsic += 2400 + 1900
	}
	switch uniform(t, 12, "gas") {
	case 0:
		x.Gas = intrinsic // exactly the intrinsic cost
	case 1:
		if intrinsic > 0 {
			x.Gas = intrinsic - 1 // too low: rejected at admission
		}
	case 2:
		x.Gas = intrinsic + 1
	case 3:
		x.Gas = intrinsic + 30000
	case 4:
		if m.W.Cfg.EVM != nil && m.W.Cfg.EVM.BlockMaxGas > 0 {
			x.Gas = uint64(m.W.Cfg.EVM.BlockMaxGas) + uint64(uniform(t, 2, "over")) // at / above the block limit
		} else {
			x.Gas = 5_000_000
		}
	default:
		x.Gas = intrinsic + uint64(100_000+uniform(t, 1_900_000, "gasv"))
	}
	// keep the block's total gas within the block limit, as the proposer's mempool reaping does
	if m.W.Cfg.EVM != nil && m.W.Cfg.EVM.BlockMaxGas > 0 && x.Gas <= uint64(m.W.Cfg.EVM.BlockMaxGas) {
		if m.blockGas+x.Gas > uint64(m.W.Cfg.EVM.BlockMaxGas) {
			*a = Action{Kind: "nextBlock", Dt: 1 + uniform(t, 5, "dt")}
			return
		}
	}
	// value
	bal := c.App.BankKeeper.GetBalance(ctx, m.Ident(x.From).Acc(), "hua").Amount.BigInt()
	switch uniform(t, 24, "value") {
	case 0, 1, 2, 3, 4, 5, 6, 7:
		x.Value = "0"
	case 8, 9:
		x.Value = "1"
	case 10:
		x.Value = bal.String() // cannot also pay the fee
	case 11:
		x.Value = new(big.Int).Add(bal, big.NewInt(1)).String()
	case 12:
		// everything but the maximal fee
		cap := bigOf(x.Price)
		if x.Type == 2 {
			cap = bigOf(x.FeeCap)
		}
		v := new(big.Int).Sub(bal, new(big.Int).Mul(cap, new(big.Int).SetUint64(x.Gas)))
		if v.Sign() < 0 {
			v.SetInt64(0)
		}
		x.Value = v.String()
	case 13, 14:
		// a visible share of the balance
		x.Value = new(big.Int).Quo(bal, big.NewInt(int64(3+uniform(t, 20, "share")))).String()
	default:
		x.Value = new(big.Int).Exp(big.NewInt(10), big.NewInt(int64(uniform(t, 17, "vexp"))), nil).String()
	}
	switch uniform(t, 12, "nonce") {
	case 0:
		x.NonceOff = 1
	case 1:
		x.NonceOff = -1
	}
}
