package props

import (
	"fmt"

	"exoverif/sim"
)

// atomicInv is the C09 oracle: a call that reports failure leaves every restaking store and
// the oracle's in-memory state byte-identical.
type atomicInv struct {
	snap    sim.Snapshot
	mem     string
	failing map[string]int // entry point -> failing calls judged
	partial int            // failing calls issued in a state where a prefix of the effects was possible
}

func (a *atomicInv) Init(m *Machine) error {
	a.failing = map[string]int{}
	return nil
}

func (a *atomicInv) take(m *Machine) {
	a.snap = m.C.Snap(m.C.Ctx(), sim.RestakingStores...)
	a.mem = sim.OracleMemDump()
}

func (a *atomicInv) Before(m *Machine, act *Action) {
	if !isBlockStep(act) {
		a.take(m)
	}
}

// PreSlash: the slash is issued at BeginBlock position of a new block.
func (a *atomicInv) PreSlash(m *Machine, act *Action, infrH int64) { a.take(m) }

func (a *atomicInv) After(m *Machine, act *Action, o Outcome) error {
	if act.Kind == "nextBlock" || act.Kind == "jail" || act.Kind == "unjail" || act.Kind == "evidence" || o.OK {
		return nil
	}
	after := m.C.Snap(m.C.Ctx(), sim.RestakingStores...)
	a.failing[act.Kind]++
	if d := sim.Diff(a.snap, after); len(d) > 0 {
		msg := ""
		for i, e := range d {
			if i >= 4 {
				msg += fmt.Sprintf(" ... (%d keys)", len(d))
				break
			}
			msg += " " + e.String()
		}
		return violation("C09.I1.failed-call-left-trace", "%s reported failure (%s) but changed:%s", act.String(), truncate(o.Note, 120), msg)
	}
	if mem := sim.OracleMemDump(); mem != a.mem {
		return violation("C09.I2.failed-call-changed-oracle-memory", "%s reported failure but the oracle's in-memory state changed", act.String())
	}
	return nil
}

func truncate(s string, n int) string {
	if len(s) > n {
		return s[:n]
	}
	return s
}
