package props

import (
	"fmt"
	"strings"

	"exoverif/sim"

	"github.com/ExocoreNetwork/exocore/utils"
	avstypes "github.com/ExocoreNetwork/exocore/x/avs/types"
)

// authInv is the oracle of property C10: for every state-changing entry point it decides from
// the property's own table whether the caller of the pending action is the rightful one. A call
// by anybody else must be rejected and must leave every store of the restaking modules
// byte-identical; an AVS-level call may only ever touch the records of the calling address.
type authInv struct {
	pre      sim.Snapshot
	preAVS   map[string]string // lower-case AVS address -> marshalled record, before the step
	unauth   string            // why the pending action is not authorised ("" = rightful caller or no claim)
	unauthID string
	// statistics
	Probes    map[string]int // kind/identity class -> unauthorised probes judged
	Confirmed map[string]int // kind -> probes whose rightful twin (same payload) was accepted right after
	lastProbe *Action
	lastWhy   string
	Testnet   int
}

var authStores = []string{"assets", "delegation", "operator", "avs", "dogfood", "oracle", "exomint", "feedistribution", "epochs", "slashing", "evidence"}

func newAuthInv() *authInv {
	return &authInv{Probes: map[string]int{}, Confirmed: map[string]int{}}
}

func (inv *authInv) Init(m *Machine) error { return nil }

func gatewayOnly(kind string) bool {
	switch kind {
	case "depositLST", "withdrawLST", "depositNST", "withdrawNST", "delegate", "undelegate", "associate", "dissociate", "regChain", "regToken", "updToken":
		return true
	}
	return false
}

func signerBound(kind string) bool {
	switch kind {
	case "optIn", "optOut", "setKey", "regOperator", "nativeDelegate", "nativeUndelegate", "updateParams":
		return true
	}
	return false
}

func (inv *authInv) avsRecords(m *Machine) map[string]string {
	out := map[string]string{}
	m.C.App.AVSManagerKeeper.IterateAVSInfo(m.C.Ctx(), func(_ int64, info avstypes.AVSInfo) bool {
		b, _ := info.Marshal()
		out[strings.ToLower(info.AvsAddress)] = string(b)
		return false
	})
	return out
}

func (inv *authInv) ownersOf(m *Machine, avsAddr string) ([]string, bool) {
	info, err := m.C.App.AVSManagerKeeper.GetAVSInfo(m.C.Ctx(), avsAddr)
	if err != nil || info.Info == nil {
		return nil, false
	}
	return info.Info.AvsOwnerAddress, true
}

// classify says why the pending action comes from somebody who is not entitled to it.
func (inv *authInv) classify(m *Machine, a *Action) (id, why string) {
	switch {
	case gatewayOnly(a.Kind):
		// the configured gateway is a parameter (on testnet chain ids anybody may have changed it)
		gw := m.W.Gateway.Addr.Hex()
		if p, err := m.C.App.AssetsKeeper.GetParams(m.C.Ctx()); err == nil && p != nil {
			gw = p.ExocoreLzAppAddress
		}
		if c := m.caller(a.Caller); !strings.EqualFold(c.Addr.Hex(), gw) {
			return "C10.I1.gateway-only", fmt.Sprintf("the caller %s is not the configured gateway", c.Addr.Hex())
		}
	case a.Kind == "price":
		if a.Co > 0 {
			return "C10.I4.price-signature", "the transaction carries a report in the name of a second validator whose signature was made with the first validator's key"
		}
		if a.Sig != int(sim.SigValid) {
			return "C10.I4.price-signature", fmt.Sprintf("the price transaction is not signed by the consensus key it names (signature kind %d)", a.Sig)
		}
	case a.Kind == "govSubmit" && a.Mode == 1 && a.Module != "" && a.Module != "text":
		// a proposal may only carry messages whose signer is the governance account
		return "C10.I5.proposal-with-foreign-authority", fmt.Sprintf("the proposal carries a parameter update of %s that names the proposer as authority", a.Module)
	case a.Kind == "updateParams":
		if !utils.IsMainnet(m.W.Cfg.ChainID) {
			inv.Testnet++
			return "", ""
		}
		// the governance account has no key: whoever signs is not the authority
		return "C10.I5.params-by-non-governance", fmt.Sprintf("parameter update of %s signed by an ordinary account", a.Module)
	case signerBound(a.Kind):
		if a.Signer > 0 {
			return "C10.I3.not-the-signer", "the message names somebody else than the account that signed the transaction"
		}
	case strings.HasPrefix(a.Kind, "avs") && a.Avs != nil:
		x := a.Avs
		from := m.Ident(x.From)
		sender := m.Ident(x.Sender).Bech32()
		switch a.Kind {
		case "avsRegister":
			owner := false
			for _, o := range x.Owners {
				if m.Ident(o).Bech32() == sender {
					owner = true
				}
			}
			if !owner {
				return "C10.I2.avs-owner", "the sender is not a listed owner"
			}
		case "avsUpdate", "avsDeregister":
			owners, ok := inv.ownersOf(m, from.Addr.Hex())
			if !ok {
				return "C10.I2.avs-binding", "the calling address has no AVS of its own"
			}
			if !contains(owners, sender) {
				return "C10.I2.avs-owner", "the sender is not a listed owner of the calling AVS"
			}
		case "avsTask":
			info := m.C.App.AVSManagerKeeper.GetAVSInfoByTaskAddress(m.C.Ctx(), from.Addr.Hex())
			if info.AvsAddress == "" {
				return "C10.I2.avs-binding", "the calling address is no AVS's task contract"
			}
			if !contains(info.AvsOwnerAddress, sender) {
				return "C10.I2.avs-owner", "the sender is not a listed owner of the AVS"
			}
		case "avsOptIn", "avsOptOut":
			if x.Via == 1 {
				if a.Signer > 0 {
					return "C10.I3.not-the-signer", "the opt-in/out message names somebody else than the account that signed the transaction"
				}
			} else if x.From != x.Sender {
				return "C10.I3.precompile-sender-not-signer", "the precompile is asked to opt " + sender + " in/out by a transaction " + sender + " did not sign"
			}
		case "avsBLS":
			if x.From != x.Sender {
				return "C10.I3.precompile-sender-not-signer", "a BLS key is registered for " + sender + " by a transaction it did not sign"
			}
		case "avsResult":
			if a.Signer > 0 {
				return "C10.I3.not-the-signer", "the task result message names somebody else than the account that signed the transaction"
			}
			if x.From != x.Operator {
				return "C10.I3.result-for-other-operator", "the result is attributed to another operator than the signer"
			}
		}
	}
	return "", ""
}

func (inv *authInv) Before(m *Machine, a *Action) {
	inv.unauthID, inv.unauth = inv.classify(m, a)
	inv.pre = nil
	if inv.unauth != "" {
		inv.pre = m.C.Snap(m.C.Ctx(), authStores...)
	}
	if strings.HasPrefix(a.Kind, "avs") {
		inv.preAVS = inv.avsRecords(m)
	} else {
		inv.preAVS = nil
	}
}

func (inv *authInv) probeClass(m *Machine, a *Action) string {
	switch {
	case gatewayOnly(a.Kind):
		return a.Kind + "/caller=" + inv.identClass(m, m.caller(a.Caller))
	case a.Kind == "price":
		if a.Co > 0 {
			return "price/forged-cosigner"
		}
		return fmt.Sprintf("price/sig=%d", a.Sig)
	case a.Kind == "updateParams":
		return fmt.Sprintf("updateParams/%s/authority=%v/forge=%d", a.Module, a.Ident >= 0, a.Forge)
	case a.Signer > 0:
		return fmt.Sprintf("%s/forge=%d", a.Kind, a.Forge)
	case a.Avs != nil:
		return a.Kind + "/" + strings.TrimPrefix(inv.unauthID, "C10.")
	}
	return a.Kind
}

func (inv *authInv) identClass(m *Machine, k sim.AccountKey) string {
	for _, x := range m.W.AVSKeys {
		if x.Addr == k.Addr {
			return "contract-account"
		}
	}
	for _, x := range m.W.Operators {
		if x.Addr == k.Addr {
			return "operator"
		}
	}
	for _, x := range m.W.Stakers {
		if x.Addr == k.Addr {
			return "staker"
		}
	}
	if k.Addr == m.W.Gateway.Addr {
		return "gateway"
	}
	return "other"
}

func (inv *authInv) After(m *Machine, a *Action, o Outcome) error {
	// the rightful twin of the previous probe: same payload, rightful caller
	if inv.lastProbe != nil && inv.unauth == "" && a.Kind == inv.lastProbe.Kind && o.OK {
		inv.Confirmed[a.Kind]++
	}
	inv.lastProbe = nil
	// AVS-level calls are bound to the calling address
	if inv.preAVS != nil && a.Avs != nil && (a.Kind == "avsRegister" || a.Kind == "avsUpdate" || a.Kind == "avsDeregister" || a.Kind == "avsTask" || a.Kind == "avsChallenge") {
		own := lowerHex(m.Ident(a.Avs.From).Addr)
		post := inv.avsRecords(m)
		for _, addr := range sortedKeys(inv.preAVS) {
			if addr != own && post[addr] != inv.preAVS[addr] {
				return violation("C10.I2.avs-binding", "%s called by %s changed the record of AVS %s", a.Kind, own, addr)
			}
		}
		for _, addr := range sortedKeys(post) {
			if _, had := inv.preAVS[addr]; !had && addr != own {
				return violation("C10.I2.avs-binding", "%s called by %s created a record for AVS %s", a.Kind, own, addr)
			}
		}
	}
	if inv.unauth == "" {
		return nil
	}
	inv.Probes[inv.probeClass(m, a)]++
	cp := *a
	inv.lastProbe, inv.lastWhy = &cp, inv.unauth
	accepted := o.OK
	if accepted {
		return violation(inv.unauthID, "%s took effect although %s", a.String(), inv.unauth)
	}
	post := m.C.Snap(m.C.Ctx(), authStores...)
	if d := sim.Diff(inv.pre, post); len(d) > 0 {
		return violation(inv.unauthID+".state-changed", "%s was rejected (%s; %s) but changed state: %s", a.String(), inv.unauth, o.Note, d[0].String())
	}
	return nil
}
