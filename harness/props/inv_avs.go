package props

import (
	"bytes"
	"fmt"
	"math/big"
	"sort"
	"strings"

	"exoverif/sim"

	avstypes "github.com/ExocoreNetwork/exocore/x/avs/types"
	sdk "github.com/cosmos/cosmos-sdk/types"
	"github.com/ethereum/go-ethereum/common"
	"github.com/ethereum/go-ethereum/crypto"
	"github.com/prysmaticlabs/prysm/v4/crypto/bls/blst"
)

// avsInv is the reference model of property C20: the AVS registry, the task counters, the
// two-phase result windows, challenges and the statistics written at the end of a task's
// statistical period. It judges every accepted operation against the conditions the property
// states ("accepted only ...") and compares the module's records with the set of accepted
// operations after every step.
type avsInv struct {
	avs        map[string]*mAVS // lower-case hex AVS address
	tasks      map[string]*mTask
	lastID     map[string]uint64 // task address -> last id handed out
	results    map[string]*mResult
	challenges map[string]bool
	bls        map[string][]byte // operator bech32 -> registered BLS public key
	optedIn    map[string]bool   // operator/avs (lower hex) -> accepted opt-in not followed by an accepted opt-out

	// per step
	pre        []sim.KVPair
	preEpoch   map[string]int64
	illegal    string // why accepting the pending action would violate the property ("" = may be accepted)
	illegalID  string
	selfBefore opValues
	// statistics
	Accepted map[string]int
	Windows  map[string]int
	Stats    int
}

type mAVS struct {
	Addr     string
	Stored   string // the address string as the module records it
	Owners   []string
	TaskAddr string
	Epoch    string
	MinSelf  uint64
	Assets   []string
}

type mTask struct {
	Addr                      string
	ID                        uint64
	Start, Resp, Stat, Chall  uint64
	Hash                      []byte
	AVS                       string
	OptIn                     []string
	StatsChecked, StatsWanted bool
}

type mResult struct {
	Operator, TaskAddr string
	ID                 uint64
	Stage              string
	Sig, Resp          []byte
}

func newAvsInv() *avsInv {
	return &avsInv{
		avs: map[string]*mAVS{}, tasks: map[string]*mTask{}, lastID: map[string]uint64{}, results: map[string]*mResult{},
		challenges: map[string]bool{}, bls: map[string][]byte{}, optedIn: map[string]bool{},
		Accepted: map[string]int{}, Windows: map[string]int{},
	}
}

func taskKey(addr string, id uint64) string    { return fmt.Sprintf("%s/%d", addr, id) }
func resKey(op, addr string, id uint64) string { return fmt.Sprintf("%s/%s/%d", op, addr, id) }
func lowerHex(a common.Address) string         { return strings.ToLower(a.Hex()) }
func (inv *avsInv) Init(m *Machine) error      { return nil }
func (inv *avsInv) isOperator(m *Machine, i int) bool {
	return i >= len(m.W.AVSKeys) && i < len(m.W.AVSKeys)+len(m.W.Operators)
}

func contains(xs []string, x string) bool {
	for _, y := range xs {
		if x == y {
			return true
		}
	}
	return false
}

func (inv *avsInv) avsByTask(taskAddr string) *mAVS {
	for _, k := range sortedKeys(inv.avs) {
		if inv.avs[k].TaskAddr == taskAddr {
			return inv.avs[k]
		}
	}
	return nil
}

func (inv *avsInv) epochOf(m *Machine, id string) (int64, bool) {
	e, ok := m.C.App.EpochsKeeper.GetEpochInfo(m.C.Ctx(), id)
	return e.CurrentEpoch, ok
}

func (inv *avsInv) Before(m *Machine, a *Action) {
	inv.pre = m.C.Snap(m.C.Ctx(), "avs")["avs"]
	inv.preEpoch = map[string]int64{}
	for _, e := range m.C.App.EpochsKeeper.AllEpochInfos(m.C.Ctx()) {
		inv.preEpoch[e.Identifier] = e.CurrentEpoch
	}
	inv.illegal, inv.illegalID = "", ""
	if !strings.HasPrefix(a.Kind, "avs") || a.Avs == nil {
		return
	}
	x := a.Avs
	deny := func(id, format string, args ...interface{}) {
		if inv.illegal == "" {
			inv.illegalID, inv.illegal = id, fmt.Sprintf(format, args...)
		}
	}
	from := m.Ident(x.From)
	fromAVS := lowerHex(from.Addr)
	sender := m.Ident(x.Sender).Bech32()
	switch a.Kind {
	case "avsRegister":
		if inv.avs[fromAVS] != nil {
			deny("C20.I1.avs-registered-twice", "AVS address %s is already registered", fromAVS)
		}
		if x.Task >= 0 {
			if o := inv.avsByTask(m.identAddr(x.Task).Hex()); o != nil {
				deny("C20.I1.task-address-shared", "task address %s already belongs to AVS %s", m.identAddr(x.Task).Hex(), o.Addr)
			}
		}
		owner := false
		for _, o := range x.Owners {
			if m.Ident(o).Bech32() == sender {
				owner = true
			}
		}
		if !owner {
			deny("C20.I1.register-by-non-owner", "sender %s is not a listed owner", sender)
		}
	case "avsUpdate":
		cur := inv.avs[fromAVS]
		if cur == nil {
			deny("C20.I1.update-unregistered", "AVS %s is not registered", fromAVS)
		} else if !contains(cur.Owners, sender) {
			deny("C20.I1.update-by-non-owner", "sender %s is not an owner of %s", sender, fromAVS)
		}
		if x.Task >= 0 {
			if o := inv.avsByTask(m.identAddr(x.Task).Hex()); o != nil && o.Addr != fromAVS {
				deny("C20.I1.task-address-shared", "task address %s already belongs to AVS %s", m.identAddr(x.Task).Hex(), o.Addr)
			}
		}
	case "avsDeregister":
		cur := inv.avs[fromAVS]
		if cur == nil {
			deny("C20.I1.deregister-unregistered", "AVS %s is not registered", fromAVS)
		} else if !contains(cur.Owners, sender) {
			deny("C20.I1.deregister-by-non-owner", "sender %s is not an owner of %s", sender, fromAVS)
		}
	case "avsOptIn":
		avsAddr, opIdx := fromAVS, x.Sender
		if x.Via == 1 {
			avsAddr, opIdx = lowerHex(m.identAddr(x.Target)), x.From
		}
		cur := inv.avs[avsAddr]
		if cur == nil && avsAddr != m.W.AvsAddr {
			deny("C20.I2.optin-unregistered-avs", "AVS %s is not registered", avsAddr)
		}
		if !inv.isOperator(m, opIdx) {
			deny("C20.I2.optin-unregistered-operator", "%s is not a registered operator", m.Ident(opIdx).Bech32())
		}
		if cur != nil {
			if v, err := Observe(m.C); err == nil {
				vals := expectedValues(m, m.C.Ctx(), v, m.Ident(opIdx).Bech32(), cur.Assets)
				inv.selfBefore = vals
				min := new(big.Int).Mul(new(big.Int).SetUint64(cur.MinSelf), e18)
				if vals.SelfHi.Cmp(min) < 0 {
					deny("C20.I2.optin-below-min-self-delegation", "self value %s (x10^-18) of %s is below the AVS minimum %d", vals.SelfHi, m.Ident(opIdx).Bech32(), cur.MinSelf)
				}
			}
		}
	case "avsTask":
		taskAddr := from.Addr.Hex()
		cur := inv.avsByTask(taskAddr)
		if cur == nil {
			deny("C20.I3.task-for-unregistered", "task address %s belongs to no AVS", taskAddr)
		} else if !contains(cur.Owners, sender) {
			deny("C20.I3.task-by-non-owner", "sender %s is not an owner of AVS %s", sender, cur.Addr)
		}
	case "avsResult":
		if x.NilInfo {
			deny("C20.I4.result-malformed", "no result in the message")
			break
		}
		op := m.Ident(x.Operator).Bech32()
		taskAddr := m.identAddr(x.Target).Hex()
		if x.Operator != x.From {
			deny("C20.I4.result-for-other-operator", "signer %s submits for %s", from.Bech32(), op)
		}
		if !inv.isOperator(m, x.Operator) {
			deny("C20.I4.result-from-unregistered-operator", "%s is not a registered operator", op)
		}
		pub := inv.bls[op]
		if pub == nil {
			deny("C20.I4.result-without-bls-key", "%s has no registered BLS key", op)
		}
		t := inv.tasks[taskKey(taskAddr, x.TaskID)]
		if t == nil {
			deny("C20.I4.result-for-unknown-task", "task %s/%d does not exist", taskAddr, x.TaskID)
			break
		}
		avs := inv.avsByTask(taskAddr)
		if avs == nil {
			deny("C20.I4.result-for-unregistered-avs", "task address %s belongs to no registered AVS", taskAddr)
			break
		}
		cur, ok := inv.epochOf(m, avs.Epoch)
		if !ok {
			deny("C20.I4.result-epoch-unknown", "epoch %s unknown", avs.Epoch)
			break
		}
		endResp := int64(t.Start + t.Resp)
		endStat := int64(t.Start + t.Resp + t.Stat)
		prev := inv.results[resKey(op, taskAddr, x.TaskID)]
		switch x.Stage {
		case avstypes.TwoPhaseCommitOne:
			inv.Windows[fmt.Sprintf("p1@%+d", clamp(cur-endResp))]++
			if cur > endResp {
				deny("C20.I4.phase-one-after-response-period", "epoch %d > start %d + response period %d", cur, t.Start, t.Resp)
			}
			if prev != nil {
				deny("C20.I4.phase-one-twice", "a result of %s for task %s/%d exists", op, taskAddr, x.TaskID)
			}
		case avstypes.TwoPhaseCommitTwo:
			inv.Windows[fmt.Sprintf("p2@%+d/%+d", clamp(cur-endResp), clamp(cur-endStat))]++
			if cur <= endResp || cur > endStat {
				deny("C20.I4.phase-two-outside-statistical-period", "epoch %d not in (%d, %d]", cur, endResp, endStat)
			}
			sig := inv.pendingSig(m, x)
			switch {
			case prev == nil:
				inv.Windows["p2:no-prior-result"]++
			case !bytes.Equal(prev.Sig, sig):
				inv.Windows[fmt.Sprintf("p2:signature-differs(sigmode=%d,stage-of-prior=%s)", x.SigMode, prev.Stage)]++
			default:
				inv.Windows["p2:signature-matches"]++
			}
			if prev == nil || !bytes.Equal(prev.Sig, sig) {
				deny("C20.I4.phase-two-without-phase-one-signature", "no phase-one result with this signature")
			}
			if !x.WithResp || x.RespID != x.TaskID {
				deny("C20.I4.phase-two-task-id-mismatch", "response carries task id %d, not %d", x.RespID, x.TaskID)
			}
			if pub != nil && x.WithResp {
				digest := crypto.Keccak256Hash(taskResponseBytes(x.RespID, x.Num))
				pk, err := blst.PublicKeyFromBytes(pub)
				okSig := false
				if err == nil && len(sig) > 0 {
					okSig, _ = blst.VerifySignature(sig, digest, pk)
				}
				if !okSig {
					deny("C20.I4.phase-two-bad-bls-signature", "the BLS signature does not verify against the registered key")
				}
			}
		default:
			deny("C20.I4.result-unknown-stage", "stage %q", x.Stage)
		}
	case "avsChallenge":
		taskAddr := from.Addr.Hex()
		op := m.Ident(x.Operator).Bech32()
		t := inv.tasks[taskKey(taskAddr, x.TaskID)]
		if t == nil {
			deny("C20.I5.challenge-unknown-task", "task %s/%d does not exist", taskAddr, x.TaskID)
			break
		}
		avs := inv.avsByTask(taskAddr)
		if avs == nil {
			deny("C20.I5.challenge-unregistered-avs", "task address %s belongs to no registered AVS", taskAddr)
			break
		}
		cur, _ := inv.epochOf(m, avs.Epoch)
		endStat := int64(t.Start + t.Resp + t.Stat)
		endChall := endStat + int64(t.Chall)
		inv.Windows[fmt.Sprintf("ch@%+d/%+d", clamp(cur-endStat), clamp(cur-endChall))]++
		if cur <= endStat || cur > endChall {
			deny("C20.I5.challenge-outside-challenge-period", "epoch %d not in (%d, %d]", cur, endStat, endChall)
		}
		if inv.challenges[resKey(op, taskAddr, x.TaskID)] {
			deny("C20.I5.challenge-twice", "%s was already challenged for task %s/%d", op, taskAddr, x.TaskID)
		}
	}
}

func clamp(d int64) int64 {
	if d > 2 {
		return 2
	}
	if d < -2 {
		return -2
	}
	return d
}

// pendingSig recomputes the signature bytes the action carries.
func (inv *avsInv) pendingSig(m *Machine, x *AvsAct) []byte {
	digest := crypto.Keccak256Hash(taskResponseBytes(x.SigID, x.SigNum))
	switch x.SigMode {
	case 0:
		return m.BLS(x.BlsKey).Sign(digest)
	case 1:
		return m.BLS(x.BlsKey + 1).Sign(digest)
	case 2:
		b := make([]byte, 96)
		copy(b, digest[:])
		return b
	}
	return nil
}

func (inv *avsInv) After(m *Machine, a *Action, o Outcome) error {
	c := m.C
	ctx := c.Ctx()
	isAvs := strings.HasPrefix(a.Kind, "avs") && a.Avs != nil
	if isAvs {
		x := a.Avs
		accepted := o.OK
		from := m.Ident(x.From)
		if a.Kind == "avsChallenge" {
			// the precompile answers "true" on some rejected paths: acceptance = a record appeared
			accepted = c.App.AVSManagerKeeper.IsExistTaskChallengedInfo(ctx, m.Ident(x.Operator).Bech32(), from.Addr.Hex(), x.TaskID) &&
				!inv.challenges[resKey(m.Ident(x.Operator).Bech32(), from.Addr.Hex(), x.TaskID)]
		}
		if accepted && inv.illegal != "" {
			return violation(inv.illegalID, "%s was accepted although %s", a.String(), inv.illegal)
		}
		if accepted {
			inv.Accepted[a.Kind]++
			if err := inv.apply(m, a); err != nil {
				return err
			}
		} else if a.Kind != "avsOptIn" && a.Kind != "avsOptOut" {
			// a rejected operation leaves the module's store untouched
			post := c.Snap(ctx, "avs")["avs"]
			if d := sim.Diff(sim.Snapshot{"avs": inv.pre}, sim.Snapshot{"avs": post}); len(d) > 0 {
				return violation("C20.I6.rejected-but-changed", "%s was rejected (%s) but changed the AVS store: %s", a.String(), o.Note, d[0].String())
			}
		}
	}
	if err := inv.compare(m); err != nil {
		return err
	}
	return inv.epochEnds(m)
}

// apply books an accepted operation.
func (inv *avsInv) apply(m *Machine, a *Action) error {
	c := m.C
	ctx := c.Ctx()
	x := a.Avs
	from := m.Ident(x.From)
	fromAVS := lowerHex(from.Addr)
	switch a.Kind {
	case "avsRegister", "avsUpdate":
		info, err := c.App.AVSManagerKeeper.GetAVSInfo(ctx, fromAVS)
		if err != nil || info.Info == nil {
			return violation("C20.I1.accepted-but-missing", "%s accepted but the AVS record is missing: %v", a.Kind, err)
		}
		rec := &mAVS{Addr: fromAVS, Stored: info.Info.AvsAddress, Owners: info.Info.AvsOwnerAddress, TaskAddr: info.Info.TaskAddr, Epoch: info.Info.EpochIdentifier, MinSelf: info.Info.MinSelfDelegation, Assets: info.Info.AssetIDs}
		if a.Kind == "avsRegister" {
			args := m.avsArgs(x)
			if strings.ToLower(info.Info.AvsAddress) != fromAVS || info.Info.TaskAddr != args.TaskAddr.Hex() || info.Info.EpochIdentifier != args.EpochID ||
				info.Info.MinSelfDelegation != args.MinSelf || strings.Join(info.Info.AvsOwnerAddress, ",") != strings.Join(args.Owners, ",") ||
				strings.Join(info.Info.AssetIDs, ",") != strings.Join(args.AssetIDs, ",") {
				return violation("C20.I1.record-differs", "registered AVS record %+v does not carry the submitted values %+v", info.Info, args)
			}
			for _, id := range args.AssetIDs {
				if assetDecimalsOf(m.W, id) < 0 {
					return violation("C20.I1.unknown-asset-accepted", "AVS registered with unregistered asset %s", id)
				}
			}
			if _, ok := inv.epochOf(m, args.EpochID); !ok {
				return violation("C20.I1.unknown-epoch-accepted", "AVS registered with unknown epoch identifier %q", args.EpochID)
			}
		}
		inv.avs[fromAVS] = rec
	case "avsDeregister":
		delete(inv.avs, fromAVS)
	case "avsOptIn", "avsOptOut":
		avsAddr, opIdx := fromAVS, x.Sender
		if x.Via == 1 {
			avsAddr, opIdx = lowerHex(m.identAddr(x.Target)), x.From
		}
		inv.optedIn[m.Ident(opIdx).Bech32()+"/"+avsAddr] = a.Kind == "avsOptIn"
	case "avsBLS":
		op := m.Ident(x.Sender).Bech32()
		if inv.bls[op] != nil {
			return violation("C20.I4.bls-key-replaced", "a second BLS key was accepted for %s", op)
		}
		inv.bls[op] = m.BLS(x.BlsKey).Pub
	case "avsTask":
		taskAddr := from.Addr.Hex()
		id := inv.lastID[taskAddr] + 1
		t, err := c.App.AVSManagerKeeper.GetTaskInfo(ctx, fmt.Sprint(id), taskAddr)
		if err != nil {
			return violation("C20.I3.task-id-not-next", "task created for %s but no task with id %d (previous id %d) exists: %v", taskAddr, id, inv.lastID[taskAddr], err)
		}
		inv.lastID[taskAddr] = id
		avs := inv.avsByTask(taskAddr)
		mt := &mTask{Addr: taskAddr, ID: id, Start: t.StartingEpoch, Resp: t.TaskResponsePeriod, Stat: t.TaskStatisticalPeriod, Chall: t.TaskChallengePeriod, Hash: t.Hash, OptIn: append([]string{}, t.OptInOperators...)}
		if avs != nil {
			mt.AVS = avs.Addr
			cur, _ := inv.epochOf(m, avs.Epoch)
			if int64(t.StartingEpoch) != cur+1 {
				return violation("C20.I3.task-start", "task %s/%d created in epoch %d starts at epoch %d", taskAddr, id, cur, t.StartingEpoch)
			}
		}
		if t.TaskResponsePeriod != x.Resp || t.TaskStatisticalPeriod != x.Stat || t.TaskChallengePeriod != x.Chall {
			return violation("C20.I3.task-record-differs", "task %s/%d records periods %d/%d/%d, submitted %d/%d/%d", taskAddr, id, t.TaskResponsePeriod, t.TaskStatisticalPeriod, t.TaskChallengePeriod, x.Resp, x.Stat, x.Chall)
		}
		inv.tasks[taskKey(taskAddr, id)] = mt
	case "avsResult":
		op := m.Ident(x.Operator).Bech32()
		taskAddr := m.identAddr(x.Target).Hex()
		r := &mResult{Operator: op, TaskAddr: taskAddr, ID: x.TaskID, Stage: x.Stage, Sig: inv.pendingSig(m, x)}
		if x.Stage == avstypes.TwoPhaseCommitTwo {
			r.Resp = taskResponseBytes(x.RespID, x.Num)
		}
		inv.results[resKey(op, taskAddr, x.TaskID)] = r
	case "avsChallenge":
		inv.challenges[resKey(m.Ident(x.Operator).Bech32(), from.Addr.Hex(), x.TaskID)] = true
	}
	return nil
}

// compare checks that the module's records are exactly the accepted operations.
func (inv *avsInv) compare(m *Machine) error {
	c := m.C
	ctx := c.Ctx()
	k := c.App.AVSManagerKeeper
	// registry
	seen := map[string]bool{}
	taskOwner := map[string]string{}
	var err error
	k.IterateAVSInfo(ctx, func(_ int64, info avstypes.AVSInfo) bool {
		addr := strings.ToLower(info.AvsAddress)
		if addr == m.W.AvsAddr {
			return false
		}
		if seen[addr] {
			err = violation("C20.I1.avs-registered-twice", "AVS %s is recorded twice", addr)
			return true
		}
		seen[addr] = true
		if inv.avs[addr] == nil {
			err = violation("C20.I1.phantom-avs", "AVS %s is recorded but no accepted registration exists", addr)
			return true
		}
		if info.TaskAddr != "" {
			if o, ok := taskOwner[info.TaskAddr]; ok {
				err = violation("C20.I1.task-address-shared", "task address %s is registered to %s and %s", info.TaskAddr, o, addr)
				return true
			}
			taskOwner[info.TaskAddr] = addr
		}
		return false
	})
	if err != nil {
		return err
	}
	for _, a := range sortedKeys(inv.avs) {
		if !seen[a] {
			return violation("C20.I1.avs-lost", "registered AVS %s has no record", a)
		}
	}
	// tasks: ids per task address are 1..n
	counts := map[string]uint64{}
	maxID := map[string]uint64{}
	k.IterateTaskAVSInfo(ctx, func(_ int64, t avstypes.TaskInfo) bool {
		counts[t.TaskContractAddress]++
		if t.TaskId > maxID[t.TaskContractAddress] {
			maxID[t.TaskContractAddress] = t.TaskId
		}
		if inv.tasks[taskKey(t.TaskContractAddress, t.TaskId)] == nil {
			err = violation("C20.I3.phantom-task", "task %s/%d is recorded but was never accepted", t.TaskContractAddress, t.TaskId)
			return true
		}
		if t.TaskId == 0 {
			err = violation("C20.I3.task-id-zero", "task %s has id 0", t.TaskContractAddress)
			return true
		}
		return false
	})
	if err != nil {
		return err
	}
	for _, addr := range sortedKeys(inv.lastID) {
		if counts[addr] != inv.lastID[addr] || maxID[addr] != inv.lastID[addr] {
			return violation("C20.I3.task-ids", "task address %s: %d tasks recorded with highest id %d, %d were accepted", addr, counts[addr], maxID[addr], inv.lastID[addr])
		}
	}
	// results
	nres := 0
	k.IterateResultInfo(ctx, func(_ int64, r avstypes.TaskResultInfo) bool {
		nres++
		mr := inv.results[resKey(r.OperatorAddress, r.TaskContractAddress, r.TaskId)]
		if mr == nil {
			err = violation("C20.I4.phantom-result", "a result of %s for task %s/%d is recorded but was never accepted", r.OperatorAddress, r.TaskContractAddress, r.TaskId)
			return true
		}
		if r.Stage != mr.Stage || !bytes.Equal(r.BlsSignature, mr.Sig) || !bytes.Equal(r.TaskResponse, mr.Resp) {
			err = violation("C20.I4.result-differs", "the recorded result of %s for task %s/%d (stage %s) is not the accepted one (stage %s)", r.OperatorAddress, r.TaskContractAddress, r.TaskId, r.Stage, mr.Stage)
			return true
		}
		return false
	})
	if err != nil {
		return err
	}
	if nres != len(inv.results) {
		return violation("C20.I4.result-lost", "%d results recorded, %d accepted", nres, len(inv.results))
	}
	// challenges
	for _, kv := range c.Snap(ctx, "avs")["avs"] {
		if len(kv.Key) > 0 && kv.Key[0] == avstypes.KeyPrefixTaskChallengeResult[0] {
			if !inv.challenges[string(kv.Key[1:])] {
				return violation("C20.I5.phantom-challenge", "challenge record %q exists but was never accepted", kv.Key[1:])
			}
		}
	}
	for _, key := range sortedKeys(inv.challenges) {
		parts := strings.Split(key, "/")
		var id uint64
		fmt.Sscan(parts[2], &id)
		if !k.IsExistTaskChallengedInfo(ctx, parts[0], parts[1], id) {
			return violation("C20.I5.challenge-lost", "accepted challenge %s has no record", key)
		}
	}
	return nil
}

// epochEnds checks the statistics of every task whose statistical period ended in the block
// that has just begun (epoch hooks run in BeginBlock).
func (inv *avsInv) epochEnds(m *Machine) error {
	c := m.C
	ctx := c.Ctx()
	for _, e := range c.App.EpochsKeeper.AllEpochInfos(ctx) {
		before, ok := inv.preEpoch[e.Identifier]
		if !ok || e.CurrentEpoch == before {
			continue
		}
		for ended := before; ended < e.CurrentEpoch; ended++ {
			for _, tk := range sortedKeys(inv.tasks) {
				t := inv.tasks[tk]
				avs := inv.avsByTask(t.Addr)
				if avs == nil || avs.Epoch != e.Identifier || int64(t.Start+t.Resp+t.Stat) != ended {
					continue
				}
				if err := inv.checkStats(m, ctx, t, avs); err != nil {
					return err
				}
			}
		}
	}
	return nil
}

func (inv *avsInv) checkStats(m *Machine, ctx sdk.Context, t *mTask, avs *mAVS) error {
	c := m.C
	var signers []string
	for _, rk := range sortedKeys(inv.results) {
		r := inv.results[rk]
		if r.TaskAddr == t.Addr && r.ID == t.ID {
			signers = append(signers, r.Operator)
		}
	}
	sort.Strings(signers)
	rec, err := c.App.AVSManagerKeeper.GetTaskInfo(ctx, fmt.Sprint(t.ID), t.Addr)
	if err != nil {
		return violation("C20.I7.task-lost", "task %s/%d: %v", t.Addr, t.ID, err)
	}
	if len(signers) == 0 {
		if len(rec.SignedOperators) != 0 {
			return violation("C20.I7.signers", "task %s/%d has no accepted result but lists signers %v", t.Addr, t.ID, rec.SignedOperators)
		}
		return nil
	}
	inv.Stats++
	got := append([]string{}, rec.SignedOperators...)
	sort.Strings(got)
	if strings.Join(got, ",") != strings.Join(signers, ",") {
		return violation("C20.I7.signers", "task %s/%d at the end of its statistical period lists signers %v, accepted results are from %v", t.Addr, t.ID, rec.SignedOperators, signers)
	}
	var non []string
	for _, o := range t.OptIn {
		if !contains(signers, o) {
			non = append(non, o)
		}
	}
	sort.Strings(non)
	gotNon := append([]string{}, rec.NoSignedOperators...)
	sort.Strings(gotNon)
	if strings.Join(gotNon, ",") != strings.Join(non, ",") {
		return violation("C20.I7.non-signers", "task %s/%d lists non-signers %v; opted-in at creation %v minus signers %v = %v", t.Addr, t.ID, rec.NoSignedOperators, t.OptIn, signers, non)
	}
	// power totals
	if rec.OperatorActivePower == nil || len(rec.OperatorActivePower.OperatorPowerList) != len(signers) {
		return violation("C20.I7.powers", "task %s/%d: power list %v does not have one entry per signer %v", t.Addr, t.ID, rec.OperatorActivePower, signers)
	}
	for _, p := range rec.OperatorActivePower.OperatorPowerList {
		want, err := c.App.OperatorKeeper.GetOperatorOptedUSDValue(ctx, avs.Stored, p.OperatorAddr)
		if err != nil {
			return violation("C20.I7.powers", "task %s/%d: no recorded value for signer %s: %v", t.Addr, t.ID, p.OperatorAddr, err)
		}
		if !contains(signers, p.OperatorAddr) || p.SelfActivePower.IsNil() || !p.SelfActivePower.Equal(want.ActiveUSDValue) {
			return violation("C20.I7.powers", "task %s/%d: signer %s booked with power %s, its recorded active value is %s", t.Addr, t.ID, p.OperatorAddr, p.SelfActivePower, want.ActiveUSDValue)
		}
	}
	total, err := c.App.OperatorKeeper.GetAVSUSDValue(ctx, avs.Stored)
	if err == nil && (rec.TaskTotalPower.IsNil() || !rec.TaskTotalPower.Equal(total)) {
		return violation("C20.I7.total-power", "task %s/%d: total power %s, the AVS's recorded value is %s", t.Addr, t.ID, rec.TaskTotalPower, total)
	}
	return nil
}
