package props

import (
	"fmt"
	"math/big"

	"exoverif/sim"

	"github.com/ExocoreNetwork/exocore/utils"
	sdk "github.com/cosmos/cosmos-sdk/types"
	authtypes "github.com/cosmos/cosmos-sdk/x/auth/types"
	"github.com/ethereum/go-ethereum/common"
)

// ethInv is the accounting oracle of property C19. Around every Ethereum transaction it records
// the balances and nonces of sender, recipient and fee collector, the fee-market figures in
// force, and the stores that a failed execution must not touch; afterwards it checks the
// equations the property states with integer arithmetic of its own.
type ethInv struct {
	pre struct {
		sender, recipient, collector *big.Int
		nonce                        uint64
		baseFee                      *big.Int // zero: base fee disabled
		minGasPrice                  *big.Int // 18-decimal fixed point (x10^18)
		minGasMult                   *big.Int // 18-decimal fixed point
		stores                       sim.Snapshot
		mem                          string
		recipientAddr                common.Address
		blockGas                     uint64
	}
	blockGasWanted uint64
	// statistics
	Included, Failed, Rejected map[string]int
	Sums, NonCall              int
}

var ethUntouched = []string{"evm", "assets", "delegation", "operator", "avs", "dogfood", "oracle"}
var ethRestaking = []string{"assets", "delegation", "operator", "avs", "dogfood", "oracle"}

func newEthInv() *ethInv {
	return &ethInv{Included: map[string]int{}, Failed: map[string]int{}, Rejected: map[string]int{}}
}

func (inv *ethInv) Init(m *Machine) error { return nil }

func (inv *ethInv) balance(m *Machine, a common.Address) *big.Int {
	return m.C.App.BankKeeper.GetBalance(m.C.Ctx(), sdk.AccAddress(a.Bytes()), utils.BaseDenom).Amount.BigInt()
}

func collectorAddr() common.Address {
	return common.BytesToAddress(authtypes.NewModuleAddress(authtypes.FeeCollectorName).Bytes())
}

func (inv *ethInv) recipientOf(m *Machine, x *EthAct) common.Address {
	to, _, err := m.ethCalldata(x)
	if err != nil {
		return common.Address{}
	}
	if to == nil {
		from := m.Ident(x.From)
		n := int64(m.C.App.EvmKeeper.GetNonce(m.C.Ctx(), from.Addr)) + int64(x.NonceOff)
		if n < 0 {
			n = 0
		}
		return createAddress(from.Addr, uint64(n))
	}
	return *to
}

func (inv *ethInv) Before(m *Machine, a *Action) {
	if a.Kind == "nextBlock" {
		inv.blockGasWanted = 0
	}
	if a.Kind != "ethTx" || a.Eth == nil {
		return
	}
	x := a.Eth
	c := m.C
	ctx := c.Ctx()
	from := m.Ident(x.From)
	inv.pre.recipientAddr = inv.recipientOf(m, x)
	inv.pre.sender = inv.balance(m, from.Addr)
	inv.pre.recipient = inv.balance(m, inv.pre.recipientAddr)
	inv.pre.collector = inv.balance(m, collectorAddr())
	inv.pre.nonce = c.App.EvmKeeper.GetNonce(ctx, from.Addr)
	fp := c.App.FeeMarketKeeper.GetParams(ctx)
	// with the base fee switched off the chain (London rules) counts a base fee of zero
	inv.pre.baseFee = new(big.Int)
	if !fp.NoBaseFee {
		if b := c.App.FeeMarketKeeper.GetBaseFee(ctx); b != nil {
			inv.pre.baseFee = b
		}
	}
	inv.pre.minGasPrice = new(big.Int).Set(fp.MinGasPrice.BigInt())
	inv.pre.minGasMult = new(big.Int).Set(fp.MinGasMultiplier.BigInt())
	inv.pre.stores = c.Snap(ctx, ethUntouched...)
	inv.pre.mem = sim.OracleMemDump()
	inv.pre.blockGas = inv.blockGasWanted
}

// effectivePrice is the price per unit of gas the sender pays.
func (inv *ethInv) effectivePrice(x *EthAct) *big.Int {
	if x.Type != 2 {
		return bigOf(x.Price)
	}
	cap := bigOf(x.FeeCap)
	p := new(big.Int).Add(inv.pre.baseFee, bigOf(x.TipCap))
	if p.Cmp(cap) > 0 {
		return cap
	}
	return p
}

// mustReject lists the admission checks the property names that the transaction certainly fails.
func (inv *ethInv) mustReject(m *Machine, x *EthAct) string {
	cap := bigOf(x.Price)
	if x.Type == 2 {
		cap = bigOf(x.FeeCap)
	}
	if x.Nonce != inv.pre.nonce {
		return fmt.Sprintf("nonce %d, the account's nonce is %d", x.Nonce, inv.pre.nonce)
	}
	// (the mempool check demands gas limit x fee cap + value against the mempool's own view of
	// the balance, which does not see the value transfers of the block in progress; what is
	// certain from the state the block sees is that the gas must be purchasable. A value the
	// sender can no longer afford makes the execution fail, which is judged as such.)
	cost := new(big.Int).Mul(inv.effectivePrice(x), new(big.Int).SetUint64(x.Gas))
	if inv.pre.sender.Cmp(cost) < 0 {
		return fmt.Sprintf("balance %s below gas limit x effective price = %s", inv.pre.sender, cost)
	}
	if cap.Cmp(inv.pre.baseFee) < 0 {
		return fmt.Sprintf("price (cap) %s below the base fee %s", cap, inv.pre.baseFee)
	}
	if eff := new(big.Int).Mul(inv.effectivePrice(x), e18); eff.Cmp(inv.pre.minGasPrice) < 0 {
		return fmt.Sprintf("effective price %s below the minimum gas price %s x10^-18", inv.effectivePrice(x), inv.pre.minGasPrice)
	}
	if m.W.Cfg.EVM != nil && m.W.Cfg.EVM.BlockMaxGas > 0 && x.Gas > uint64(m.W.Cfg.EVM.BlockMaxGas) {
		return fmt.Sprintf("gas limit %d above the block gas limit %d", x.Gas, m.W.Cfg.EVM.BlockMaxGas)
	}
	return ""
}

func ethClass(x *EthAct) string {
	t := []string{"legacy", "accesslist", "dynamic"}[x.Type%3]
	tg := []string{"transfer", "storer", "reverter", "burner", "gateway-forwarder", "create", "other-forwarder", "precompile-direct"}[x.Target%8]
	if x.Target == ethTargetAssetsForwarder || x.Target == ethTargetDelegationForwarder {
		tg += fmt.Sprintf("(%s,then %d,%s)", []string{"call", "staticcall", "delegatecall"}[(x.Mode>>4)%3], x.Mode&15, x.Inner)
	}
	if x.Target == ethTargetCreate {
		tg += fmt.Sprintf("(mode %d)", x.Mode)
	}
	return t + "/" + tg
}

func (inv *ethInv) After(m *Machine, a *Action, o Outcome) error {
	if a.Kind != "ethTx" || a.Eth == nil || m.lastEth == nil {
		return nil
	}
	x := a.Eth
	b := m.lastEth
	c := m.C
	ctx := c.Ctx()
	from := m.Ident(x.From)
	sender := inv.balance(m, from.Addr)
	recipient := inv.balance(m, inv.pre.recipientAddr)
	collector := inv.balance(m, collectorAddr())
	nonce := c.App.EvmKeeper.GetNonce(ctx, from.Addr)
	cls := ethClass(x)
	why := inv.mustReject(m, x)
	if !o.Included {
		inv.Rejected[cls]++
		reason := o.Note
		for _, key := range []string{"nonce", "insufficient", "gas price", "base fee", "exceeds block gas limit", "intrinsic", "gas limit", "fee cap", "min gas price", "minimum"} {
			if containsStr(reason, key) {
				reason = key
				break
			}
		}
		if len(reason) > 60 {
			reason = reason[:60]
		}
		inv.Rejected["why:"+reason]++
		// not included: costs nothing, changes nothing
		if sender.Cmp(inv.pre.sender) != 0 || collector.Cmp(inv.pre.collector) != 0 || recipient.Cmp(inv.pre.recipient) != 0 {
			return violation("C19.I5.rejected-but-charged", "%s was not included (%s) but balances moved: sender %s -> %s, recipient %s -> %s, fee collector %s -> %s", a.String(), o.Note, inv.pre.sender, sender, inv.pre.recipient, recipient, inv.pre.collector, collector)
		}
		if nonce != inv.pre.nonce {
			return violation("C19.I5.rejected-but-nonce-moved", "%s was not included (%s) but the sender's nonce went %d -> %d", a.String(), o.Note, inv.pre.nonce, nonce)
		}
		if d := sim.Diff(inv.pre.stores, c.Snap(ctx, ethUntouched...)); len(d) > 0 {
			return violation("C19.I5.rejected-but-changed", "%s was not included (%s) but changed state: %s", a.String(), o.Note, d[0].String())
		}
		return nil
	}
	if why != "" {
		return violation("C19.I4.admitted", "%s was included although %s", a.String(), why)
	}
	inv.blockGasWanted += x.Gas
	// nonce
	if nonce != inv.pre.nonce+1 {
		return violation("C19.I1.nonce", "%s: the sender's nonce went %d -> %d", a.String(), inv.pre.nonce, nonce)
	}
	// gas used bounds
	used := uint64(o.GasUsed)
	minUsed := new(big.Int).Mul(new(big.Int).SetUint64(x.Gas), inv.pre.minGasMult)
	minUsed.Quo(minUsed, e18)
	if used > x.Gas || new(big.Int).SetUint64(used).Cmp(minUsed) < 0 {
		return violation("C19.I2.gas-used", "%s: gas used %d is not within [%s, %d] (minimum gas multiplier %s x10^-18)", a.String(), used, minUsed, x.Gas, inv.pre.minGasMult)
	}
	price := inv.effectivePrice(x)
	fee := new(big.Int).Mul(price, new(big.Int).SetUint64(used))
	value := bigOf(x.Value)
	failed := b.Resp != nil && b.Resp.VmError != ""
	if failed {
		inv.Failed[cls]++
		value = new(big.Int)
	} else {
		inv.Included[cls]++
	}
	// fee collector
	if got := new(big.Int).Sub(collector, inv.pre.collector); got.Cmp(fee) != 0 {
		return violation("C19.I3.fee-collector", "%s: the fee collector received %s, gas used %d x effective price %s = %s", a.String(), got, used, price, fee)
	}
	// sender and recipient
	wantSender := new(big.Int).Sub(inv.pre.sender, fee)
	wantRecipient := new(big.Int).Set(inv.pre.recipient)
	selfTransfer := inv.pre.recipientAddr == from.Addr
	if !selfTransfer {
		wantSender.Sub(wantSender, value)
		wantRecipient.Add(wantRecipient, value)
	}
	if inv.pre.recipientAddr == collectorAddr() {
		wantRecipient.Add(wantRecipient, fee)
	}
	if sender.Cmp(wantSender) != 0 {
		return violation("C19.I3.sender-pays", "%s: the sender's balance went %s -> %s, expected %s (value %s + gas used %d x price %s; vm error %q)", a.String(), inv.pre.sender, sender, wantSender, value, used, price, o.Note)
	}
	if !selfTransfer && recipient.Cmp(wantRecipient) != 0 {
		return violation("C19.I3.recipient", "%s: the recipient's balance went %s -> %s, expected %s (vm error %q)", a.String(), inv.pre.recipient, recipient, wantRecipient, o.Note)
	}
	inv.Sums++
	// a forwarder that reaches the precompile with STATICCALL (no state change allowed) or with
	// DELEGATECALL (the precompile then sees the forwarder's own caller, not the gateway) never
	// changes restaking state, whatever the outcome of the transaction
	if (x.Target == ethTargetAssetsForwarder || x.Target == ethTargetDelegationForwarder) && x.Mode>>4 != 0 {
		inv.NonCall++
		post := c.Snap(ctx, ethRestaking...)
		pre := sim.Snapshot{}
		for _, k := range ethRestaking {
			pre[k] = inv.pre.stores[k]
		}
		if d := sim.Diff(pre, post); len(d) > 0 {
			return violation("C19.I7.static-or-delegate-call-changed-restaking-state", "%s reached the precompile with %s and changed %s", a.String(), []string{"CALL", "STATICCALL", "DELEGATECALL"}[(x.Mode>>4)%3], d[0].String())
		}
		if mem := sim.OracleMemDump(); mem != inv.pre.mem {
			return violation("C19.I7.static-or-delegate-call-changed-restaking-state", "%s reached the precompile with %s and changed the oracle's in-memory state", a.String(), []string{"CALL", "STATICCALL", "DELEGATECALL"}[(x.Mode>>4)%3])
		}
	}
	// a failed execution changes nothing else
	if failed {
		if d := sim.Diff(inv.pre.stores, c.Snap(ctx, ethUntouched...)); len(d) > 0 {
			return violation("C19.I6.failed-but-changed", "%s failed (%s) but changed state: %s", a.String(), o.Note, d[0].String())
		}
		// the oracle keeps parameters and rounds in process memory and writes them to its store
		// at the end of the block: what a reverted execution left there comes back as state
		if mem := sim.OracleMemDump(); mem != inv.pre.mem {
			return violation("C19.I6.failed-but-changed-oracle-memory", "%s failed (%s) but the oracle's in-memory state (written to the store at the end of the block) changed", a.String(), o.Note)
		}
	}
	return nil
}
