package props

import (
	"bytes"
	"fmt"
	"math/big"
	"sort"
	"strings"

	"exoverif/sim"
)

// exitInv is the C03 oracle: the undelegation queue model of DESIGN.md appendix B, fed only by
// the chain's own acceptance answers and block ends.
type exitInv struct {
	prev  *View
	model map[string]*exitRec // record key -> model record
	// statistics
	maxOverlap     int
	holdsSeen      int
	releases       int
	postponed      int
	collisionProne int
	accepted       int
}

type exitRec struct {
	UndRow
	Due uint64 // model completion height (moves by one per block while held)
}

func (e *exitInv) Init(m *Machine) error {
	v, err := Observe(m.C)
	if err != nil {
		return err
	}
	e.prev = v
	e.model = map[string]*exitRec{}
	for _, u := range v.Undelegations {
		e.model[u.Key] = &exitRec{UndRow: u, Due: u.Complete}
	}
	return e.static(m, v)
}

func (e *exitInv) Before(m *Machine, a *Action) {}

func sumBy(v *View, f func(u UndRow) string) map[string]*big.Int {
	out := map[string]*big.Int{}
	for _, u := range v.Undelegations {
		k := f(u)
		if _, ok := out[k]; !ok {
			out[k] = new(big.Int)
		}
		out[k].Add(out[k], u.Amount)
	}
	return out
}

// static: pending aggregates equal the sums over unreleased records, and the three indexes are
// a bijection onto the record set.
func (e *exitInv) static(m *Machine, v *View) error {
	// (5) aggregates
	byStaker := sumBy(v, func(u UndRow) string { return u.Staker + "|" + u.Asset })
	byOp := sumBy(v, func(u UndRow) string { return u.Operator + "|" + u.Asset })
	byDel := sumBy(v, func(u UndRow) string { return u.Staker + "/" + u.Asset + "/" + u.Operator })
	zero := new(big.Int)
	get := func(mm map[string]*big.Int, k string) *big.Int {
		if x, ok := mm[k]; ok {
			return x
		}
		return zero
	}
	for _, st := range sortedKeys(v.Staker) {
		for _, as := range sortedKeys(v.Staker[st]) {
			if want := get(byStaker, st+"|"+as); v.Staker[st][as].Pending.Cmp(want) != 0 {
				return violation("C03.I5.staker-pending", "staker %s asset %s: pending figure %s, unreleased records sum to %s", st, as, v.Staker[st][as].Pending, want)
			}
		}
	}
	for k, want := range byStaker {
		p := strings.SplitN(k, "|", 2)
		if p[1] == nativeAssetID {
			continue
		}
		if _, ok := v.Staker[p[0]][p[1]]; !ok && want.Sign() != 0 {
			return violation("C03.I5.staker-pending", "staker %s asset %s: records sum to %s but no staker row", p[0], p[1], want)
		}
	}
	for _, op := range sortedKeys(v.Operator) {
		for _, as := range sortedKeys(v.Operator[op]) {
			if want := get(byOp, op+"|"+as); v.Operator[op][as].Pending.Cmp(want) != 0 {
				return violation("C03.I5.operator-pending", "operator %s asset %s: pending figure %s, unreleased records sum to %s", op, as, v.Operator[op][as].Pending, want)
			}
		}
	}
	for _, k := range sortedKeys(v.Delegations) {
		if want := get(byDel, k); v.Delegations[k].Wait.Cmp(want) != 0 {
			return violation("C03.I5.delegation-pending", "delegation %s: wait-undelegation figure %s, unreleased records sum to %s", k, v.Delegations[k].Wait, want)
		}
	}
	for k, want := range byDel {
		if _, ok := v.Delegations[k]; !ok && want.Sign() != 0 {
			return violation("C03.I5.delegation-pending", "delegation %s: records sum to %s but no delegation row", k, want)
		}
	}
	// (6) index bijection, by raw scan of the delegation store
	return e.indexes(m, v)
}

func (e *exitInv) indexes(m *Machine, v *View) error {
	dump := m.C.Dump(m.C.Ctx(), "delegation")
	recs := map[string]UndRow{}
	for _, u := range v.Undelegations {
		recs[u.Key] = u
	}
	rawRecs := 0
	stakerIdx := map[string]int{}
	pendingIdx := map[string]int{}
	for _, kv := range dump {
		if len(kv.Key) == 0 {
			continue
		}
		switch kv.Key[0] {
		case 3: // record
			rawRecs++
			if _, ok := recs[string(kv.Key[1:])]; !ok {
				return violation("C03.I6.index", "raw record %q not reported by AllUndelegations under its own key", kv.Key[1:])
			}
		case 4: // staker index: stakerID/assetID/nonce -> record key
			r, ok := recs[string(kv.Value)]
			if !ok {
				return violation("C03.I6.index", "staker index entry %q points to missing record %q", kv.Key[1:], kv.Value)
			}
			if !bytes.HasPrefix(kv.Key[1:], []byte(r.Staker+"/"+r.Asset+"/")) {
				return violation("C03.I6.index", "staker index entry %q points to record %q of another staker/asset", kv.Key[1:], kv.Value)
			}
			stakerIdx[string(kv.Value)]++
		case 5: // pending index: height/nonce -> record key
			r, ok := recs[string(kv.Value)]
			if !ok {
				return violation("C03.I6.index", "pending index entry %q points to missing record %q", kv.Key[1:], kv.Value)
			}
			want := fmt.Sprintf("0x%x/", r.Complete)
			if !bytes.HasPrefix(kv.Key[1:], []byte(want)) {
				return violation("C03.I6.index", "pending index entry %q does not match completion height %d of record %q", kv.Key[1:], r.Complete, kv.Value)
			}
			pendingIdx[string(kv.Value)]++
		}
	}
	if rawRecs != len(recs) {
		return violation("C03.I6.index", "%d raw records, %d reported", rawRecs, len(recs))
	}
	for _, k := range sortedKeys(recs) {
		if stakerIdx[k] != 1 {
			return violation("C03.I6.index.lost-staker-entry", "record %q has %d staker-index entries (overwritten by another record?)", k, stakerIdx[k])
		}
		if pendingIdx[k] != 1 {
			return violation("C03.I6.index.lost-pending-entry", "record %q has %d pending-index entries (overwritten by another record?): it would never be released", k, pendingIdx[k])
		}
	}
	return nil
}

func (e *exitInv) After(m *Machine, a *Action, o Outcome) error {
	cur, err := Observe(m.C)
	if err != nil {
		return violation("C03.I0.observe", "%v", err)
	}
	prev := e.prev
	defer func() { e.prev = cur }()
	curRecs := map[string]UndRow{}
	for _, u := range cur.Undelegations {
		curRecs[u.Key] = u
	}
	blocks := 0
	switch a.Kind {
	case "nextBlock", "slash", "jail", "unjail", "evidence":
		blocks = 1
	}

	// ---- (1) acceptance and (2) exactly one record with the requested fields
	type req struct {
		staker, asset, op string
		amount            *big.Int
	}
	var reqs []req
	gatewayCall := a.Caller == 0
	switch a.Kind {
	case "undelegate":
		if gatewayCall {
			reqs = append(reqs, req{m.StakerID(a.Actor, a.Asset), m.W.AssetIDs[a.Asset], m.W.Operators[a.Op].Bech32(), amt(a.Amount)})
		}
	case "nativeUndelegate":
		for i, op := range a.Ops {
			reqs = append(reqs, req{sim_nativeStakerID(m, a.Actor), nativeAssetID, m.W.Operators[op].Bech32(), amt(a.Amounts[i])})
		}
	}
	// a message may name the same operator more than once; then nothing is claimed about
	// acceptance, but if it is accepted every entry must still get its own record
	perOp := map[string]int{}
	dup := false
	for _, r := range reqs {
		perOp[r.op]++
		if perOp[r.op] > 1 {
			dup = true
		}
	}
	if len(reqs) > 0 {
		within := true
		for _, r := range reqs {
			pos := big.NewInt(0)
			if d, ok := prev.Delegations[r.staker+"/"+r.asset+"/"+r.op]; ok {
				pr := prev.Operator[r.op][r.asset]
				pos = redeemable(d.Share, pr.TotalShare, pr.Amount)
			}
			if r.amount.Sign() <= 0 || r.amount.Cmp(pos) > 0 {
				within = false
			}
		}
		if within && !dup && !o.OK {
			return violation("C03.I1.rejected", "%s of an amount within the staker's position was rejected: %s (%s)", a.Kind, a.String(), o.Note)
		}
		if o.OK {
			e.accepted++
			for _, r := range reqs {
				if dup {
					n := 0
					for k, u := range curRecs {
						if _, old := e.model[k]; !old && u.Staker == r.staker && u.Asset == r.asset && u.Operator == r.op {
							n++
						}
					}
					if n != perOp[r.op] {
						return violation("C03.I2.record-overwritten", "accepted %s names operator %s %d times but created %d record(s): one undelegation overwrote the other", a.Kind, r.op, perOp[r.op], n)
					}
					continue
				}
				var fresh []UndRow
				for k, u := range curRecs {
					if _, old := e.model[k]; !old && u.Staker == r.staker && u.Asset == r.asset && u.Operator == r.op {
						fresh = append(fresh, u)
					}
				}
				if len(fresh) != 1 {
					return violation("C03.I2.record-count", "accepted %s created %d records for %s/%s/%s", a.Kind, len(fresh), r.staker, r.asset, r.op)
				}
				u := fresh[0]
				lo := new(big.Int).Sub(r.amount, big.NewInt(1))
				if u.Amount.Cmp(lo) < 0 || u.Amount.Cmp(r.amount) > 0 || u.Actual.Cmp(u.Amount) != 0 ||
					u.Start != uint64(m.C.Height) || u.Complete != u.Start+10 {
					return violation("C03.I2.record-fields", "accepted %s of %s at height %d created record %+v", a.Kind, r.amount, m.C.Height, u)
				}
				e.model[u.Key] = &exitRec{UndRow: u, Due: u.Complete}
				if u.Hold > 0 {
					e.holdsSeen++
				}
			}
		}
	}
	if a.Kind == "withdrawLST" && gatewayCall {
		if r, ok := prev.Staker[m.StakerID(a.Actor, a.Asset)][m.W.AssetIDs[a.Asset]]; ok {
			x := amt(a.Amount)
			if x.Sign() > 0 && x.Cmp(r.Withdrawable) <= 0 && !o.OK {
				return violation("C03.I1.withdraw-rejected", "withdrawal of %s within the withdrawable balance %s was rejected", x, r.Withdrawable)
			}
		}
	}
	// records may only appear through an accepted request
	for k, u := range curRecs {
		if _, ok := e.model[k]; !ok {
			return violation("C03.I3.phantom-record", "record %q (%+v) exists without an accepted request", k, u)
		}
	}

	// ---- holds placed by the harness as a second AVS: never lost, and they keep the record pending
	if o.ExtHoldRefused {
		return violation("C03.I3.hold-lost", "the release of a hold that was placed on a pending record and never released was refused: %s", o.Note)
	}
	for k, n := range m.ExtHolds {
		if n <= 0 {
			continue
		}
		u, ok := curRecs[k]
		if !ok {
			return violation("C03.I3.early-release", "record %q was released while %d hold(s) placed through the hold interface remain", k, n)
		}
		if u.Hold < uint64(n) {
			return violation("C03.I3.hold-lost", "record %q carries hold count %d, but %d hold(s) were placed through the hold interface and not released", k, u.Hold, n)
		}
	}
	// ---- (3) release timing and (4) exact credit, at block ends
	released := map[string]*exitRec{}
	for k, r := range e.model {
		if _, ok := curRecs[k]; !ok {
			released[k] = r
		}
	}
	if blocks == 0 && len(released) > 0 {
		for k := range released {
			return violation("C03.I3.lost-record", "record %q disappeared outside block processing (%s)", k, a.Kind)
		}
	}
	if blocks > 0 {
		endedHeight := uint64(m.C.Height - 1) // the block whose EndBlock just ran
		credit := map[string]*big.Int{}       // staker|asset -> expected credit
		for _, k := range sortedKeys(released) {
			r := released[k]
			if r.Due != endedHeight {
				if r.Due > endedHeight {
					return violation("C03.I3.early-release", "record %q released at the end of block %d, completion height %d (hold %d)", k, endedHeight, r.Due, r.Hold)
				}
				return violation("C03.I3.late-release", "record %q released at the end of block %d, was due at %d", k, endedHeight, r.Due)
			}
			ck := r.Staker + "|" + r.Asset
			if _, ok := credit[ck]; !ok {
				credit[ck] = new(big.Int)
			}
			// the amount owed is what the record said just before the block ended
			owed := r.Actual
			for _, pu := range prev.Undelegations {
				if pu.Key == k {
					owed = pu.Actual
				}
			}
			credit[ck].Add(credit[ck], owed)
			e.releases++
			delete(e.model, k)
		}
		for k, r := range e.model {
			u := curRecs[k]
			if r.Due == endedHeight {
				// still there although due: must be held, and moved by exactly one block
				if u.Hold == 0 {
					return violation("C03.I3.not-released", "record %q was due at the end of block %d with no hold left, but is still pending", k, endedHeight)
				}
				if u.Complete != endedHeight+1 {
					return violation("C03.I3.postpone", "held record %q re-queued for height %d instead of %d", k, u.Complete, endedHeight+1)
				}
				r.Due = endedHeight + 1
				e.postponed++
			} else if r.Due < endedHeight {
				return violation("C03.I3.lost-record", "record %q was due at %d and is still pending after block %d (it will never be looked at again)", k, r.Due, endedHeight)
			} else if u.Complete != r.Due {
				return violation("C03.I3.completion-moved", "record %q: completion height changed from %d to %d", k, r.Due, u.Complete)
			}
		}
		// credits: withdrawable balances (non native) and bank balances (native) move by exactly the released amounts
		for _, st := range sortedKeys(cur.Staker) {
			for _, as := range sortedKeys(cur.Staker[st]) {
				before := new(big.Int)
				if r, ok := prev.Staker[st][as]; ok {
					before = r.Withdrawable
				}
				d := new(big.Int).Sub(cur.Staker[st][as].Withdrawable, before)
				want := credit[st+"|"+as]
				if want == nil {
					want = new(big.Int)
				}
				if d.Cmp(want) != 0 {
					return violation("C03.I4.credit", "staker %s asset %s: withdrawable moved by %s over the block end, released records owe %s", st, as, d, want)
				}
			}
		}
		for ck, want := range credit {
			p := strings.SplitN(ck, "|", 2)
			if p[1] != nativeAssetID {
				if _, ok := cur.Staker[p[0]][p[1]]; !ok && want.Sign() > 0 {
					return violation("C03.I4.credit", "staker %s asset %s: released %s but no staker row", p[0], p[1], want)
				}
				continue
			}
			// native: compare bank balances of the staker account
			for i := 0; i < m.NumActors(); i++ {
				if sim_nativeStakerID(m, i) != p[0] {
					continue
				}
				got := new(big.Int).Sub(NativeBalance(m.C, m.ActorKey(i).Acc()), m.nativeBefore[i])
				if got.Cmp(want) != 0 {
					return violation("C03.I4.credit-native", "staker %s: bank balance moved by %s over the block end, released native records owe %s", p[0], got, want)
				}
			}
		}
	}
	// a negative native-restaking adjustment first takes the withdrawable balance, then the
	// pending records of that staker and asset: their amounts owed shrink by exactly what the
	// withdrawable balance could not cover (capped by what they hold)
	if a.Kind == "nstUpdate" && a.Neg && o.OK {
		sid, asset := m.StakerID(a.Actor, a.Asset), m.W.AssetIDs[a.Asset]
		w := new(big.Int)
		if r, ok := prev.Staker[sid][asset]; ok {
			w = r.Withdrawable
		}
		rest := new(big.Int).Sub(amt(a.Amount), w)
		if rest.Sign() < 0 {
			rest.SetInt64(0)
		}
		held, reduced := new(big.Int), new(big.Int)
		for _, pu := range prev.Undelegations {
			if pu.Staker == sid && pu.Asset == asset {
				held.Add(held, pu.Actual)
				if cu, ok := curRecs[pu.Key]; ok {
					reduced.Add(reduced, new(big.Int).Sub(pu.Actual, cu.Actual))
				}
			}
		}
		nrec := 0
		for _, pu := range prev.Undelegations {
			if pu.Staker == sid && pu.Asset == asset {
				nrec++
			}
		}
		if rest.Sign() > 0 && nrec >= 2 {
			m.label("nst-decrease-reaching-2+-pending-records")
		} else if rest.Sign() > 0 && nrec == 1 {
			m.label("nst-decrease-reaching-1-pending-record")
		}
		want := rest
		if held.Cmp(want) < 0 {
			want = held
		}
		if reduced.Cmp(want) != 0 {
			return violation("C03.I4.pending-slash", "negative NST adjustment of %s with withdrawable %s: pending records (holding %s) lost %s, expected %s", a.Amount, w, held, reduced, want)
		}
	}
	// actual amounts never grow, amounts never change
	for k, r := range e.model {
		u, ok := curRecs[k]
		if !ok {
			continue
		}
		if u.Amount.Cmp(r.Amount) != 0 {
			return violation("C03.I2.amount-changed", "record %q: recorded amount changed from %s to %s", k, r.Amount, u.Amount)
		}
		if u.Actual.Cmp(r.Actual) > 0 {
			return violation("C03.I4.actual-grew", "record %q: amount owed grew from %s to %s", k, r.Actual, u.Actual)
		}
		if u.Hold > 0 && r.Hold == 0 && blocks == 0 && a.Kind != "undelegate" && a.Kind != "nativeUndelegate" {
			e.holdsSeen++
		}
		r.UndRow = u
	}
	if n := len(e.model); n > e.maxOverlap {
		e.maxOverlap = n
	}
	// collision-prone shapes: two live records with equal (completion height, nonce) or equal (staker, asset, nonce)
	seen := map[string]bool{}
	for _, r := range e.model {
		k1 := fmt.Sprintf("p/%d/%d", r.Complete, r.Nonce)
		k2 := fmt.Sprintf("s/%s/%s/%d", r.Staker, r.Asset, r.Nonce)
		if seen[k1] || seen[k2] {
			e.collisionProne++
		}
		seen[k1], seen[k2] = true, true
	}
	return e.static(m, cur)
}

func (e *exitInv) NonTrivial() bool { return e.maxOverlap >= 2 && e.holdsSeen >= 1 && e.releases >= 1 }

var _ = sort.Strings
var _ = sim.StakerID
