package props

import (
	"math/big"

	"github.com/ExocoreNetwork/exocore/utils"
	distrtypes "github.com/ExocoreNetwork/exocore/x/feedistribution/types"
	sdk "github.com/cosmos/cosmos-sdk/types"
	authtypes "github.com/cosmos/cosmos-sdk/x/auth/types"
)

// feeBook is what the fee-distribution module has booked, as raw 18-decimal integers.
type feeBook struct {
	Supply        *big.Int
	Collector     *big.Int            // bank balance of fee_collector (integer coins)
	DistrAccount  *big.Int            // bank balance of the distribution module account
	Community     *big.Int            // raw (x 10^18)
	Commission    map[string]*big.Int // validator address -> raw
	Outstanding   map[string]*big.Int
	StakerRewards map[string]*big.Int
	MintEpoch     int64
	DistrEpoch    int64
	Powers        map[string]int64 // operator (bech32 acc) -> power in the stored validator set
	TotalPower    int64
}

func rawOf(dc sdk.DecCoins) *big.Int {
	return new(big.Int).Set(dc.AmountOf(utils.BaseDenom).BigInt())
}

func observeFees(m *Machine) *feeBook {
	c := m.C
	ctx := c.Ctx()
	fb := &feeBook{Commission: map[string]*big.Int{}, Outstanding: map[string]*big.Int{}, StakerRewards: map[string]*big.Int{}, Powers: map[string]int64{}}
	fb.Supply = c.App.BankKeeper.GetSupply(ctx, utils.BaseDenom).Amount.BigInt()
	fb.Collector = c.App.BankKeeper.GetBalance(ctx, authtypes.NewModuleAddress(authtypes.FeeCollectorName), utils.BaseDenom).Amount.BigInt()
	fb.DistrAccount = c.App.BankKeeper.GetBalance(ctx, authtypes.NewModuleAddress(distrtypes.ModuleName), utils.BaseDenom).Amount.BigInt()
	fb.Community = rawOf(c.App.DistrKeeper.GetFeePool(ctx).CommunityPool)
	cdc := encodingCodec()
	for _, kv := range c.Dump(ctx, distrtypes.StoreKey) {
		if len(kv.Key) < 2 {
			continue
		}
		switch kv.Key[0] {
		case 0x00:
			var v distrtypes.ValidatorAccumulatedCommission
			if cdc.Unmarshal(kv.Value, &v) == nil {
				fb.Commission[string(kv.Key[2:])] = rawOf(v.Commission)
			}
		case 0x02:
			var v distrtypes.ValidatorOutstandingRewards
			if cdc.Unmarshal(kv.Value, &v) == nil {
				fb.Outstanding[string(kv.Key[2:])] = rawOf(v.Rewards)
			}
		case 0x03:
			var v distrtypes.StakerOutstandingRewards
			if cdc.Unmarshal(kv.Value, &v) == nil {
				fb.StakerRewards[string(kv.Key[2:])] = rawOf(v.Rewards)
			}
		}
	}
	mp := c.App.ExomintKeeper.GetParams(ctx)
	if info, ok := c.App.EpochsKeeper.GetEpochInfo(ctx, mp.EpochIdentifier); ok {
		fb.MintEpoch = info.CurrentEpoch
	}
	dp := c.App.DistrKeeper.GetParams(ctx)
	if info, ok := c.App.EpochsKeeper.GetEpochInfo(ctx, dp.EpochIdentifier); ok {
		fb.DistrEpoch = info.CurrentEpoch
	}
	chainID := m.chainIDNoRev()
	for _, val := range c.App.StakingKeeper.GetAllExocoreValidators(ctx) {
		if found, op := c.App.OperatorKeeper.GetOperatorAddressForChainIDAndConsAddr(ctx, chainID, sdk.ConsAddress(val.Address)); found {
			fb.Powers[op.String()] = val.Power
		}
		fb.TotalPower += val.Power
	}
	return fb
}

func sumRaw(m map[string]*big.Int) *big.Int {
	t := new(big.Int)
	for _, v := range m {
		t.Add(t, v)
	}
	return t
}

// feesInv is the C17 oracle.
type feesInv struct {
	before *feeBook
	// statistics
	distrWithFees, distrZeroPower, distrZeroFees, mints int
	rich                                                bool
	midPowers                                           map[string]int64
	midTotal                                            int64
}

func (f *feesInv) Init(m *Machine) error {
	f.before = observeFees(m)
	return f.static(f.before)
}

func (f *feesInv) Before(m *Machine, a *Action) { f.before = observeFees(m) }

// MidBlock: the distribution in the next BeginBlock uses the validator set and total power as
// stored by the EndBlock that just ran.
func (f *feesInv) MidBlock(m *Machine) error {
	c := m.C
	ctx := c.CommittedCtx()
	f.midPowers = map[string]int64{}
	f.midTotal = c.App.StakingKeeper.GetLastTotalPower(ctx).Int64()
	chainID := m.chainIDNoRev()
	for _, val := range c.App.StakingKeeper.GetAllExocoreValidators(ctx) {
		if found, op := c.App.OperatorKeeper.GetOperatorAddressForChainIDAndConsAddr(ctx, chainID, sdk.ConsAddress(val.Address)); found {
			f.midPowers[op.String()] = val.Power
		}
	}
	return nil
}

// static: the booked claims never exceed what the distribution account holds.
func (f *feesInv) static(fb *feeBook) error {
	claims := new(big.Int).Add(fb.Community, sumRaw(fb.Commission))
	claims.Add(claims, sumRaw(fb.StakerRewards))
	have := new(big.Int).Mul(fb.DistrAccount, pow10(18))
	if claims.Cmp(have) > 0 {
		return violation("C17.I3.claims-exceed-balance", "booked claims (community %s + commissions %s + staker rewards %s, raw 18-decimal) exceed the distribution account balance %s", fb.Community, sumRaw(fb.Commission), sumRaw(fb.StakerRewards), have)
	}
	return nil
}

func trunc18Mul(a, b *big.Int) *big.Int { // (a * b) / 10^18, both raw 18-decimal, truncated
	x := new(big.Int).Mul(a, b)
	return x.Quo(x, pow10(18))
}

func (f *feesInv) After(m *Machine, a *Action, o Outcome) error {
	b := f.before
	now := observeFees(m)
	ctx := m.C.Ctx()
	reward := m.C.App.ExomintKeeper.GetParams(ctx).EpochReward.BigInt()
	dSupply := new(big.Int).Sub(now.Supply, b.Supply)
	if !isBlockStep(a) {
		if dSupply.Sign() != 0 {
			return violation("C17.I1.supply", "%s changed the native supply by %s", a.Kind, dSupply)
		}
		if now.Community.Cmp(b.Community) != 0 || sumRaw(now.Commission).Cmp(sumRaw(b.Commission)) != 0 || sumRaw(now.StakerRewards).Cmp(sumRaw(b.StakerRewards)) != 0 {
			return violation("C17.I2.booking-outside-epoch-end", "%s changed the booked claims", a.Kind)
		}
		return f.static(now)
	}
	mintEnded := now.MintEpoch > b.MintEpoch
	distrEnded := now.DistrEpoch > b.DistrEpoch
	// ---- supply
	wantSupply := new(big.Int)
	if mintEnded && reward.Sign() > 0 {
		wantSupply.Set(reward)
		f.mints++
	}
	if dSupply.Cmp(wantSupply) != 0 {
		return violation("C17.I1.supply", "block step (mint epoch ended: %v, reward %s) changed the native supply by %s", mintEnded, reward, dSupply)
	}
	// ---- fee collector and distribution account
	moved := new(big.Int)
	wantCollector := new(big.Int).Set(b.Collector)
	// identifiers are processed in alphabetical order; within one identifier distribution runs
	// before mint
	mintID := m.C.App.ExomintKeeper.GetParams(ctx).EpochIdentifier
	distrID := m.C.App.DistrKeeper.GetParams(ctx).EpochIdentifier
	mintFirst := mintEnded && distrEnded && mintID < distrID
	if distrEnded {
		moved.Set(b.Collector)
		if mintFirst {
			moved.Add(moved, wantSupply)
		}
		wantCollector.SetInt64(0)
	}
	if !mintFirst {
		wantCollector.Add(wantCollector, wantSupply)
	}
	if now.Collector.Cmp(wantCollector) != 0 {
		return violation("C17.I2.collector", "fee collector holds %s after the block step, expected %s (before %s, distribution epoch ended %v, minted %s)", now.Collector, wantCollector, b.Collector, distrEnded, wantSupply)
	}
	if d := new(big.Int).Sub(now.DistrAccount, b.DistrAccount); d.Cmp(moved) != 0 {
		return violation("C17.I2.moved", "distribution account grew by %s, the fee collector held %s", d, moved)
	}
	// ---- booking
	dCommunity := new(big.Int).Sub(now.Community, b.Community)
	dCommission := new(big.Int).Sub(sumRaw(now.Commission), sumRaw(b.Commission))
	dStakers := new(big.Int).Sub(sumRaw(now.StakerRewards), sumRaw(b.StakerRewards))
	booked := new(big.Int).Add(dCommunity, dCommission)
	booked.Add(booked, dStakers)
	movedRaw := new(big.Int).Mul(moved, pow10(18))
	if booked.Cmp(movedRaw) != 0 {
		return violation("C17.I2.booked-ne-moved", "distribution epoch ended %v: %s moved (raw %s) but community %+s + commissions %+s + staker rewards %+s = %s was booked", distrEnded, moved, movedRaw, dCommunity, dCommission, dStakers, booked)
	}
	if dCommunity.Sign() < 0 || dCommission.Sign() < 0 || dStakers.Sign() < 0 {
		return violation("C17.I2.negative-booking", "a booked claim shrank: community %s commissions %s stakers %s", dCommunity, dCommission, dStakers)
	}
	if distrEnded {
		switch {
		case moved.Sign() == 0:
			f.distrZeroFees++
		case f.midTotal == 0:
			f.distrZeroPower++
		default:
			f.distrWithFees++
		}
		// each validator's portion: trunc(trunc(moved*(1-tax)) * trunc(power/total))
		if moved.Sign() > 0 && f.midTotal > 0 {
			tax := m.C.App.DistrKeeper.GetParams(ctx).CommunityTax.BigInt()
			feeMult := trunc18Mul(movedRaw, new(big.Int).Sub(pow10(18), tax))
			multi, mid := 0, false
			for op, p := range f.midPowers {
				frac := new(big.Int).Quo(new(big.Int).Mul(big.NewInt(p), pow10(18)), big.NewInt(f.midTotal))
				portion := trunc18Mul(feeMult, frac)
				acc, _ := sdk.AccAddressFromBech32(op)
				k := string(acc)
				got := new(big.Int).Sub(orZero(now.Outstanding[k]), orZero(b.Outstanding[k]))
				if got.Cmp(portion) != 0 {
					return violation("C17.I4.portion", "validator %s (power %d of %d): portion %s, expected %s of %s moved", op, p, f.midTotal, got, portion, movedRaw)
				}
				info, err := m.C.App.OperatorKeeper.OperatorInfo(ctx, op)
				if err == nil {
					rate := info.Commission.Rate.BigInt()
					lo := trunc18Mul(portion, rate)
					hi := new(big.Int).Add(lo, big.NewInt(1))
					gc := new(big.Int).Sub(orZero(now.Commission[k]), orZero(b.Commission[k]))
					if gc.Cmp(lo) < 0 || gc.Cmp(hi) > 0 {
						return violation("C17.I4.commission", "validator %s: commission %s of portion %s at rate %s", op, gc, portion, info.Commission.Rate)
					}
					if rate.Sign() > 0 && rate.Cmp(pow10(18)) < 0 {
						mid = true
					}
				}
				multi++
			}
			if multi >= 2 && mid && dStakers.Sign() > 0 {
				f.rich = true
			}
		}
	}
	return f.static(now)
}

func orZero(x *big.Int) *big.Int {
	if x == nil {
		return new(big.Int)
	}
	return x
}
