package props

import (
	"fmt"
	"math/big"
	"sort"
	"strings"

	"github.com/ExocoreNetwork/exocore/utils"
	assetstypes "github.com/ExocoreNetwork/exocore/x/assets/types"
	dogfoodtypes "github.com/ExocoreNetwork/exocore/x/dogfood/types"
	exominttypes "github.com/ExocoreNetwork/exocore/x/exomint/types"
	feedisttypes "github.com/ExocoreNetwork/exocore/x/feedistribution/types"
	oracletypes "github.com/ExocoreNetwork/exocore/x/oracle/types"
	sdk "github.com/cosmos/cosmos-sdk/types"
	govv1 "github.com/cosmos/cosmos-sdk/x/gov/types/v1"
)

// govInv is the part of the C10 oracle that is about parameter changes: the parameter sets of
// the five modules the property names may change only
//   - through a MsgUpdateParams transaction on a chain id that is not a mainnet id, or
//   - in the block in which a governance proposal carrying that module's MsgUpdateParams (with
//     the governance account as authority) passed,
//
// and a proposal passes only if the validators that voted for it hold the majority the gov
// parameters ask for. The tally is re-computed here from the model's own record of the accepted
// votes and from the harness' mirror of the validator set (what consensus was told), not from
// the dogfood keeper's answers to the gov module.
type govInv struct {
	params map[string]string               // module -> marshalled parameters after the previous step
	status map[uint64]govv1.ProposalStatus // proposal -> status after the previous step
	votes  map[uint64]map[string][]govVoteModel
	// statistics
	ByGov, ByTestnetTx, Tallies, Passed, Agree int
}

type govVoteModel struct {
	option int
	weight *big.Rat
}

func newGovInv() *govInv {
	return &govInv{params: map[string]string{}, status: map[uint64]govv1.ProposalStatus{}, votes: map[uint64]map[string][]govVoteModel{}}
}

func (inv *govInv) readParams(m *Machine) map[string]string {
	ctx := m.C.Ctx()
	out := map[string]string{}
	if p, err := m.C.App.AssetsKeeper.GetParams(ctx); err == nil && p != nil {
		b, _ := p.Marshal()
		out["assets"] = string(b)
	}
	op := m.C.App.OracleKeeper.GetParams(ctx)
	b, _ := op.Marshal()
	out["oracle"] = string(b)
	dp := m.C.App.StakingKeeper.GetDogfoodParams(ctx)
	b, _ = dp.Marshal()
	out["dogfood"] = string(b)
	mp := m.C.App.ExomintKeeper.GetParams(ctx)
	b, _ = mp.Marshal()
	out["exomint"] = string(b)
	fp := m.C.App.DistrKeeper.GetParams(ctx)
	b, _ = fp.Marshal()
	out["feedistribution"] = string(b)
	return out
}

func (inv *govInv) Init(m *Machine) error {
	inv.params = inv.readParams(m)
	return nil
}

func (inv *govInv) Before(m *Machine, a *Action) {}

// moduleOfMsg names the parameter set a proposal message updates when it names the governance
// account as authority ("" otherwise).
func moduleOfMsg(msg sdk.Msg) string {
	gov := govAuthority()
	switch x := msg.(type) {
	case *assetstypes.MsgUpdateParams:
		if x.Authority == gov {
			return "assets"
		}
	case *oracletypes.MsgUpdateParams:
		if x.Authority == gov {
			return "oracle"
		}
	case *dogfoodtypes.MsgUpdateParams:
		if x.Authority == gov {
			return "dogfood"
		}
	case *exominttypes.MsgUpdateParams:
		if x.Authority == gov {
			return "exomint"
		}
	case *feedisttypes.MsgUpdateParams:
		if x.Authority == gov {
			return "feedistribution"
		}
	}
	return ""
}

func (inv *govInv) After(m *Machine, a *Action, o Outcome) error {
	// the model's record of accepted votes (a later vote replaces an earlier one)
	if a.Kind == "govVote" && o.OK {
		id := uint64(a.N)
		if inv.votes[id] == nil {
			inv.votes[id] = map[string][]govVoteModel{}
		}
		voter := m.Ident(a.Ident).Bech32()
		if a.Twice {
			inv.votes[id][voter] = []govVoteModel{{a.Mode, big.NewRat(6, 10)}, {1 + a.Mode%4, big.NewRat(4, 10)}}
		} else {
			inv.votes[id][voter] = []govVoteModel{{a.Mode, big.NewRat(1, 1)}}
		}
	}
	// proposals that reached a final state in this step
	justified := map[string]bool{}
	for _, p := range m.govProposals() {
		prev := inv.status[p.Id]
		inv.status[p.Id] = p.Status
		if prev == p.Status {
			continue
		}
		final := p.Status == govv1.StatusPassed || p.Status == govv1.StatusRejected || p.Status == govv1.StatusFailed
		if !final {
			continue // (several kinds of step end a block: nextBlock, slashes and evidence at BeginBlock position)
		}
		inv.Tallies++
		want, detail := inv.modelTally(m, p.Id)
		executed := p.Status == govv1.StatusPassed || p.Status == govv1.StatusFailed // a failed proposal passed the vote, its execution failed
		if executed {
			inv.Passed++
		}
		if executed && !want {
			return violation("C10.I6.passed-without-majority", "proposal %d is %s, but the validators that voted for it do not hold the required majority: %s", p.Id, p.Status, detail)
		}
		if executed == want {
			inv.Agree++
		}
		if p.Status == govv1.StatusPassed {
			msgs, err := p.GetMsgs()
			if err == nil {
				for _, msg := range msgs {
					if mod := moduleOfMsg(msg); mod != "" {
						justified[mod] = true
					}
				}
			}
		}
	}
	// parameter sets may change only with a justification
	cur := inv.readParams(m)
	defer func() { inv.params = cur }()
	for _, mod := range paramModules {
		if cur[mod] == inv.params[mod] {
			continue
		}
		switch {
		case a.Kind == "updateParams" && a.Module == mod && !utils.IsMainnet(m.W.Cfg.ChainID) && o.OK:
			inv.ByTestnetTx++
		case justified[mod]:
			inv.ByGov++
		default:
			return violation("C10.I6.params-changed-without-authority", "the parameters of %s changed during %s (ok=%v) although no proposal carrying their update passed in this step (chain id %s)", mod, a.String(), o.OK, m.W.Cfg.ChainID)
		}
	}
	return nil
}

// modelTally decides, with exact fractions, whether the votes the model recorded for the
// proposal make it pass: only accounts whose consensus key is in the validator set consensus
// knows carry power (the power consensus knows), quorum, veto and threshold from the gov
// parameters.
func (inv *govInv) modelTally(m *Machine, id uint64) (bool, string) {
	params := m.C.App.GovKeeper.GetParams(m.C.Ctx())
	rat := func(s string) *big.Rat {
		r, ok := new(big.Rat).SetString(s)
		if !ok {
			return new(big.Rat)
		}
		return r
	}
	quorum, threshold, veto := rat(params.Quorum), rat(params.Threshold), rat(params.VetoThreshold)
	// operator account -> power, from the mirror of the validator set
	power := map[string]int64{}
	total := int64(0)
	for _, v := range m.C.ValSet.Validators {
		total += v.VotingPower
		found, op := m.C.App.OperatorKeeper.GetOperatorAddressForChainIDAndConsAddr(m.C.Ctx(), m.chainIDNoRev(), sdk.ConsAddress(v.Address))
		if found {
			power[op.String()] += v.VotingPower
		}
	}
	results := map[int]*big.Rat{1: new(big.Rat), 2: new(big.Rat), 3: new(big.Rat), 4: new(big.Rat)}
	voted := new(big.Rat)
	var voters []string
	for voter := range inv.votes[id] {
		voters = append(voters, voter)
	}
	sort.Strings(voters)
	for _, voter := range voters {
		p := power[voter]
		if p == 0 {
			continue
		}
		for _, v := range inv.votes[id][voter] {
			if results[v.option] == nil {
				continue
			}
			results[v.option].Add(results[v.option], new(big.Rat).Mul(v.weight, big.NewRat(p, 1)))
		}
		voted.Add(voted, big.NewRat(p, 1))
	}
	detail := fmt.Sprintf("total power %d, voted %s, yes %s abstain %s no %s veto %s (voters with power: %s)", total, voted.RatString(), results[1].RatString(), results[2].RatString(), results[3].RatString(), results[4].RatString(), strings.Join(voters, ","))
	if total == 0 {
		return false, detail
	}
	if new(big.Rat).Quo(voted, big.NewRat(total, 1)).Cmp(quorum) < 0 {
		return false, detail + "; below quorum"
	}
	nonAbstain := new(big.Rat).Sub(voted, results[2])
	if nonAbstain.Sign() == 0 {
		return false, detail + "; everybody abstained"
	}
	if new(big.Rat).Quo(results[4], voted).Cmp(veto) > 0 {
		return false, detail + "; vetoed"
	}
	if new(big.Rat).Quo(results[1], nonAbstain).Cmp(threshold) > 0 {
		return true, detail
	}
	return false, detail + "; threshold not reached"
}
