package props

import (
	"math/big"

	assetstypes "github.com/ExocoreNetwork/exocore/x/assets/types"
	"github.com/ethereum/go-ethereum/common/hexutil"
)

func stakerIDNative(addr []byte) string {
	id, _ := assetstypes.GetStakerIDAndAssetID(assetstypes.ExocoreChainLzID, addr, nil)
	return id
}

var _ = hexutil.Encode

// ledgerInv is the C01 oracle: conservation of every restaked asset's ledger sum.
type ledgerInv struct {
	prev        *View
	deposits    map[string]*big.Int
	withdrawals map[string]*big.Int
	genesis     map[string]*big.Int
	// statistics for non-triviality
	sawDelegate, sawUndelegate, sawCompletion, sawRemoval bool
}

func (l *ledgerInv) Init(m *Machine) error {
	v, err := Observe(m.C)
	if err != nil {
		return err
	}
	l.prev = v
	l.deposits, l.withdrawals, l.genesis = map[string]*big.Int{}, map[string]*big.Int{}, map[string]*big.Int{}
	for a, t := range v.StakingTotal {
		l.genesis[a] = new(big.Int).Set(t)
		l.deposits[a] = new(big.Int)
		l.withdrawals[a] = new(big.Int)
	}
	return l.static(v)
}

func (l *ledgerInv) Before(m *Machine, a *Action) {}

// static checks hold in every state.
func (l *ledgerInv) static(v *View) error {
	if s := v.NonNegative(); s != "" {
		return violation("C01.I4.negative-figure", "%s", s)
	}
	// native escrow covers native pools + pending
	need := new(big.Int)
	for _, m := range v.Operator {
		if r, ok := m[nativeAssetID]; ok {
			need.Add(need, r.Amount)
		}
	}
	for _, u := range v.Undelegations {
		if u.Asset == nativeAssetID {
			need.Add(need, u.Actual)
		}
	}
	if v.EscrowNative.Cmp(need) < 0 {
		return violation("C01.I5.escrow-short", "delegated_pool holds %s < pools+pending %s", v.EscrowNative, need)
	}
	return nil
}

func (l *ledgerInv) After(m *Machine, a *Action, o Outcome) error {
	cur, err := Observe(m.C)
	if err != nil {
		return violation("C01.I0.observe", "%v", err)
	}
	defer func() { l.prev = cur }()
	if err := l.static(cur); err != nil {
		return err
	}
	if len(cur.Undelegations) < len(l.prev.Undelegations) {
		l.sawCompletion = true
	}
	opAsset := ""
	if a.Asset < len(m.W.AssetIDs) {
		opAsset = m.W.AssetIDs[a.Asset]
	}
	x := amt(a.Amount)
	for _, asset := range cur.Assets() {
		if asset == nativeAssetID {
			continue
		}
		d := new(big.Int).Sub(cur.LedgerTotal(asset), l.prev.LedgerTotal(asset))
		touched := asset == opAsset
		switch {
		case (a.Kind == "depositLST" || a.Kind == "depositNST") && o.OK && touched:
			if d.Cmp(x) != 0 {
				return violation("C01.I1.deposit-delta", "asset %s: successful deposit of %s changed the ledger sum by %s", asset, x, d)
			}
			l.deposits[asset].Add(l.deposits[asset], x)
		case (a.Kind == "withdrawLST" || a.Kind == "withdrawNST") && o.OK && touched:
			if new(big.Int).Neg(d).Cmp(x) != 0 {
				return violation("C01.I1.withdraw-delta", "asset %s: successful withdrawal of %s changed the ledger sum by %s", asset, x, d)
			}
			l.withdrawals[asset].Add(l.withdrawals[asset], x)
		case a.Kind == "slash":
			if d.Sign() > 0 {
				return violation("C01.I2.slash-increases", "asset %s: slash increased the ledger sum by %s", asset, d)
			}
			if d.Sign() < 0 {
				l.sawRemoval = true
			}
		case a.Kind == "nstUpdate" && o.OK && touched && !a.Neg:
			if d.Cmp(x) != 0 {
				return violation("C01.I1.nst-increase-delta", "asset %s: positive NST adjustment of %s changed the ledger sum by %s", asset, x, d)
			}
		case a.Kind == "nstUpdate" && o.OK && touched && a.Neg:
			if err := l.checkNSTDecrease(m, a, cur, asset, x, d, true); err != nil {
				return err
			}
		case a.Kind == "nstUpdate" && !o.OK && touched && a.Neg:
			// whether a failed adjustment may leave a partial effect is C09's subject; for the
			// ledger sum it is still a (partial) negative adjustment: it must not add value nor
			// remove more than the adjustment
			if err := l.checkNSTDecrease(m, a, cur, asset, x, d, false); err != nil {
				return err
			}
		default:
			if d.Sign() != 0 {
				return violation("C01.I3.value-created-or-lost", "asset %s: %s (ok=%v) changed the ledger sum by %s", asset, a.Kind, o.OK, d)
			}
		}
		// published staking total = genesis + deposits - withdrawals
		if g, ok := l.genesis[asset]; ok {
			want := new(big.Int).Add(g, l.deposits[asset])
			want.Sub(want, l.withdrawals[asset])
			if got := cur.StakingTotal[asset]; got == nil || got.Cmp(want) != 0 {
				return violation("C01.I6.staking-total", "asset %s: published staking total %v, deposits-withdrawals %s", asset, got, want)
			}
		}
	}
	if (a.Kind == "delegate" || a.Kind == "nativeDelegate") && o.OK {
		l.sawDelegate = true
	}
	if (a.Kind == "undelegate" || a.Kind == "nativeUndelegate") && o.OK {
		l.sawUndelegate = true
	}
	return nil
}

// checkNSTDecrease: a negative native-restaking adjustment of x removes min(x, S) from the
// staker (S = everything the staker has in that asset), up to truncation: one unit per touched
// delegation plus the 18-decimal fixed-point error of the proportion.
func (l *ledgerInv) checkNSTDecrease(m *Machine, a *Action, cur *View, asset string, x, d *big.Int, complete bool) error {
	if d.Sign() > 0 {
		return violation("C01.I2.nst-decrease-increases", "asset %s: negative NST adjustment increased the ledger sum by %s", asset, d)
	}
	sid := m.StakerID(a.Actor, a.Asset)
	S := new(big.Int)
	if r, ok := l.prev.Staker[sid][asset]; ok {
		S.Add(S, r.Withdrawable)
	}
	for _, u := range l.prev.Undelegations {
		if u.Staker == sid && u.Asset == asset {
			S.Add(S, u.Actual)
		}
	}
	k := int64(0)
	delegated := new(big.Int)
	for op, am := range l.prev.Operator {
		r, ok := am[asset]
		if !ok {
			continue
		}
		if dl, ok := l.prev.Delegations[sid+"/"+asset+"/"+op]; ok && dl.Share.Sign() > 0 {
			k++
			delegated.Add(delegated, redeemable(dl.Share, r.TotalShare, r.Amount))
		}
	}
	S.Add(S, delegated)
	want := new(big.Int).Set(x)
	if S.Cmp(want) < 0 {
		want.Set(S)
	}
	slack := new(big.Int).Div(delegated, pow10(17))
	slack.Add(slack, big.NewInt(2*k+2))
	removed := new(big.Int).Neg(d)
	lo := new(big.Int).Sub(want, slack)
	hi := new(big.Int).Add(want, slack)
	if !complete {
		lo = big.NewInt(0)
	}
	if removed.Cmp(lo) < 0 || removed.Cmp(hi) > 0 {
		return violation("C01.I1.nst-decrease-delta", "asset %s: negative NST adjustment of %s (staker holds %s over %d delegations) removed %s, expected %s +- %s", asset, x, S, k, removed, want, slack)
	}
	if removed.Sign() > 0 {
		l.sawRemoval = true
	}
	return nil
}

func (l *ledgerInv) NonTrivial() bool {
	return l.sawDelegate && l.sawUndelegate && l.sawCompletion && l.sawRemoval
}
