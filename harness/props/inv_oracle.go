package props

import (
	"fmt"
	"math/big"
	"sort"
	"strings"
	"time"

	"exoverif/sim"

	sdk "github.com/cosmos/cosmos-sdk/types"
)

// oracleInv is the reference model of oracle rounds (C12) and of the admission / counting of
// price submissions (C13). It is fed only by the history's actions and the chain's own block
// ends; everything it expects is compared with the chain after every step.
type oracleInv struct {
	checkRounds, checkAdmission bool

	feeders  map[uint64]sim.FeederInfo // feeder id -> configuration
	maxNonce int
	maxDet   int
	maxSize  uint64
	tokenDec map[uint64]int32

	powers map[string]int64 // validator (consensus address bytes) -> power as the oracle knows it
	total  int64

	rounds map[uint64]*roundModel
	stored map[uint64]*tokenModel
	nonce  map[string]map[uint64]int // deliver state: validator -> feeder -> admitted this round
	cnonce map[string]map[uint64]int // check state

	snap       sim.Snapshot
	mem        string
	memNoNonce string
	// Finalized lists (feeder, height of the finalizing transaction, base block of the round)
	Finalized [][3]uint64
	// TwoSigner counts honest two-signer transactions whose both reports were counted
	TwoSigner int
	// statistics
	byConsensus, byCarry, rejected, admittedOnly, counted int
	classesInHistory                                      map[string]bool
	unequalPowers                                         bool
}

type roundModel struct {
	based, roundID uint64
	open           bool                           // accepting submissions
	seen           map[string]map[string]bool     // validator -> source rounds it has reported
	dets           map[string]map[string]*big.Int // source round -> value -> agreeing power
	order          []string                       // source rounds in first-seen order
	reporters      map[string]bool
	confirmed      bool // a source round has reached agreement (calculator stops then)
	confirmedPrice string
}

type tokenModel struct {
	next   uint64
	prices map[uint64]string
}

func newRound(based, id uint64) *roundModel {
	return &roundModel{based: based, roundID: id, open: true, seen: map[string]map[string]bool{}, dets: map[string]map[string]*big.Int{}, reporters: map[string]bool{}}
}

func (o *oracleInv) Init(m *Machine) error {
	o.feeders = map[uint64]sim.FeederInfo{}
	for _, f := range m.W.Feeders {
		o.feeders[f.ID] = f
	}
	p := m.C.App.OracleKeeper.GetParams(m.C.Ctx())
	o.maxNonce, o.maxDet, o.maxSize = int(p.MaxNonce), int(p.MaxDetId), uint64(p.MaxSizePrices)
	o.tokenDec = map[uint64]int32{}
	for _, f := range m.W.Feeders {
		o.tokenDec[f.ID] = m.W.Cfg.Assets[f.Token-1].PriceDecimal
	}
	o.rounds = map[uint64]*roundModel{}
	o.stored = map[uint64]*tokenModel{}
	for i, a := range m.W.Cfg.Assets {
		o.stored[uint64(i+1)] = &tokenModel{next: 2, prices: map[uint64]string{1: a.Price}}
	}
	o.nonce, o.cnonce = map[string]map[uint64]int{}, map[string]map[uint64]int{}
	o.classesInHistory = map[string]bool{}
	o.syncPowers(m)
	// the machine starts inside block 1; rounds based on block 0 cannot exist (feeders start >= 1)
	return nil
}

func (o *oracleInv) syncPowers(m *Machine) {
	o.powers = map[string]int64{}
	o.total = 0
	seen := map[int64]bool{}
	for _, v := range m.C.ValSet.Validators {
		o.powers[string(v.Address.Bytes())] = v.VotingPower
		o.total += v.VotingPower
		seen[v.VotingPower] = true
	}
	if len(seen) >= 2 && len(o.powers) >= 3 {
		o.unequalPowers = true
	}
}

func exceeds(p, total int64) bool { return p*3 > total*2 }

func (o *oracleInv) Before(m *Machine, a *Action) {
	if a.Kind == "price" {
		o.snap = m.C.Snap(m.C.Ctx(), "oracle")
		o.mem = sim.OracleMemDump()
		o.memNoNonce = sim.OracleMemDumpNoNonce()
	}
}

// expectedBased returns the open round a submission at the current height would belong to.
func (o *oracleInv) roundFor(feeder uint64) *roundModel { return o.rounds[feeder] }

func copyNonce(src map[string]map[uint64]int) map[string]map[uint64]int {
	out := map[string]map[uint64]int{}
	for v, mm := range src {
		out[v] = map[uint64]int{}
		for f, n := range mm {
			out[v][f] = n
		}
	}
	return out
}

func (o *oracleInv) After(m *Machine, a *Action, out Outcome) error {
	if isBlockStep(a) {
		if err := o.blockEnd(m); err != nil {
			return err
		}
		o.cnonce = copyNonce(o.nonce)
		return o.compareStored(m)
	}
	if a.Kind != "price" {
		return nil
	}
	return o.price(m, a, out)
}

// blockEnd models the oracle's EndBlock of the block that just ended (height m.C.Height-1).
func (o *oracleInv) blockEnd(m *Machine) error {
	h := uint64(m.C.Height - 1)
	force := false
	if len(m.C.LastEndBlock.ValidatorUpdates) > 0 {
		o.syncPowers(m)
		force = true
	}
	for _, fid := range sortedU64(o.rounds) {
		r := o.rounds[fid]
		f := o.feeders[fid]
		if !r.open {
			continue
		}
		expired := f.EndBlock > 0 && h >= f.EndBlock
		outOfWindow := h-r.based >= uint64(o.maxNonce)
		if expired || outOfWindow || force {
			// the round closes by carrying the previous price forward
			o.carryForward(f.Token)
			r.open = false
			o.byCarry++
			o.clearNonces(fid)
			if expired {
				delete(o.rounds, fid)
			}
		}
	}
	// new rounds
	for _, fid := range sortedU64f(o.feeders) {
		f := o.feeders[fid]
		if (f.EndBlock > 0 && f.EndBlock <= h) || f.StartBaseBlock > h || f.Interval == 0 {
			continue
		}
		delta := h - f.StartBaseBlock
		if delta%f.Interval == 0 {
			o.rounds[fid] = newRound(h, f.StartRoundID+delta/f.Interval)
			for v := range o.powers {
				if o.nonce[v] == nil {
					o.nonce[v] = map[uint64]int{}
				}
				if _, ok := o.nonce[v][fid]; !ok {
					o.nonce[v][fid] = 0
				}
			}
		}
	}
	return nil
}

func (o *oracleInv) clearNonces(fid uint64) {
	for v := range o.nonce {
		delete(o.nonce[v], fid)
	}
}

func (o *oracleInv) carryForward(token uint64) {
	t := o.stored[token]
	t.prices[t.next] = t.prices[t.next-1]
	t.next++
	o.prune(t)
}

func (o *oracleInv) prune(t *tokenModel) {
	for r := range t.prices {
		if r+o.maxSize < t.next { // rounds older than the retained window
			delete(t.prices, r)
		}
	}
}

// compareStored: GetNextRoundID / stored rounds per token agree with the model.
func (o *oracleInv) compareStored(m *Machine) error {
	if !o.checkRounds {
		return nil
	}
	ctx := m.C.Ctx()
	for _, token := range sortedU64t(o.stored) {
		t := o.stored[token]
		next := m.C.App.OracleKeeper.GetNextRoundID(ctx, token)
		if next != t.next {
			return violation("C12.I4.round-numbering", "token %d at height %d: next round id %d, the model of rounds closed so far says %d (every round closes exactly once, one per interval)", token, m.C.Height, next, t.next)
		}
		retained := 0
		for r := uint64(1); r < next; r++ {
			p, found := m.C.App.OracleKeeper.GetPriceTRRoundID(ctx, token, r)
			want, have := t.prices[r]
			if found {
				retained++
			}
			if have && (!found || p.Price != want) {
				return violation("C12.I2.round-price", "token %d round %d: stored price %q (found=%v), expected %q", token, r, p.Price, found, want)
			}
			if found && p.RoundID != r {
				return violation("C12.I4.round-numbering", "token %d: entry under round %d carries round id %d", token, r, p.RoundID)
			}
			if !found && r+o.maxSize >= next && r > 0 && have {
				return violation("C12.I4.gap", "token %d: round %d missing (next %d)", token, r, next)
			}
		}
		if uint64(retained) > o.maxSize {
			return violation("C12.I5.retention", "token %d retains %d rounds, limit %d", token, retained, o.maxSize)
		}
	}
	return nil
}

func (o *oracleInv) price(m *Machine, a *Action, out Outcome) error {
	val := string(m.Keys[a.Key].ConsAddr())
	fid := a.Feeder
	if !o.checkAdmission {
		// model-only mode (used to annotate recorded histories): follow the chain's own answers
		if a.Mode == 0 && out.OK {
			if r := o.roundFor(fid); r != nil && r.open {
				return o.consume(m, a, val, fid, r)
			}
		}
		return nil
	}
	nmap := o.nonce
	if a.Mode > 0 {
		nmap = o.cnonce
	}
	// ---- admission (ante) model
	admitted, why := true, ""
	n, hasEntry := 0, false
	if nm, ok := nmap[val]; ok {
		n, hasEntry = nm[fid], false
		_, hasEntry = nm[fid]
	}
	txLen := len(m.lastTx)
	switch {
	case txLen > 1000:
		admitted, why = false, "size"
	case sim.PriceSig(a.Sig) != sim.SigValid:
		admitted, why = false, "signature"
	case a.Co > 0 && !a.CoOwn:
		admitted, why = false, "the co-signing validator's signature was made with the first signer's key"
	case a.PNonce < 0 || int(a.PNonce) > o.maxNonce:
		admitted, why = false, "nonce beyond the per-round limit"
	case !hasEntry:
		admitted, why = false, "no open round for this validator and feeder"
	case int(a.PNonce) != n+1:
		admitted, why = false, "nonce not consecutive"
	case a.Twice && a.N == 1 && int(a.PNonce)+1 > o.maxNonce:
		admitted, why = false, "second message's nonce beyond the per-round limit"
	case a.Twice && a.N != 1:
		admitted, why = false, "second message repeats the nonce"
	}
	twoNonces := admitted && a.Twice && a.N == 1
	// an honest two-signer transaction: the second validator's message passes the same checks
	coVal := ""
	if a.Co > 0 && a.CoOwn {
		coVal = string(m.Keys[(a.Co-1)%len(m.Keys)].ConsAddr())
		nB, hasB := 0, false
		if nm, ok := nmap[coVal]; ok {
			nB, hasB = nm[fid], false
			_, hasB = nm[fid]
		}
		switch {
		case !admitted:
		case a.Twice:
			admitted, why = false, "not generated together"
		case a.CoNonce < 0 || int(a.CoNonce) > o.maxNonce:
			admitted, why = false, "second signer's nonce beyond the per-round limit"
		case !hasB:
			admitted, why = false, "no open round for the second signer and feeder"
		case int(a.CoNonce) != nB+1:
			admitted, why = false, "second signer's nonce not consecutive"
		}
	}
	if out.Admitted != admitted {
		return violation("C13.I1.admission", "%s: admitted=%v, model says admitted=%v (%s); stored nonce %d; log: %s", a.String(), out.Admitted, admitted, why, n, truncate(out.Note, 160))
	}
	if admitted {
		nmap[val][fid] = n + 1
		if twoNonces {
			nmap[val][fid] = n + 2
		}
		if coVal != "" {
			nmap[coVal][fid]++
		}
	}
	if a.Mode > 0 {
		// CheckTx / ReCheckTx never touch the deliver state
		after := m.C.Snap(m.C.Ctx(), "oracle")
		if d := sim.Diff(o.snap, after); len(d) > 0 {
			return violation("C13.I3.checktx-changed-state", "CheckTx changed the deliver state: %v", d[0].String())
		}
		if sim.OracleMemDump() != o.mem {
			return violation("C13.I3.checktx-changed-memory", "CheckTx changed the oracle's deliver-side memory")
		}
		if admitted && (out.Priority <= 0 || out.GasWanted != 0) {
			return violation("C13.I5.priority-gas", "admitted price transaction has priority %d gas wanted %d", out.Priority, out.GasWanted)
		}
		return nil
	}
	// ---- counting model
	countedWant, whyNot := false, ""
	r := o.roundFor(fid)
	_, isVal := o.powers[val]
	ts, tsErr := time.ParseInLocation("2006-01-02 15:04:05", a.Ts, time.UTC)
	if admitted {
		countedWant = true
		switch {
		case len(a.Dets) == 0 || tsErr != nil || m.C.Time.UTC().Add(5*time.Second).Before(ts):
			countedWant, whyNot = false, "timestamp"
		case !isVal:
			countedWant, whyNot = false, "not a validator"
		case len(a.Dets) > o.maxDet || a.Src != 1:
			countedWant, whyNot = false, "sources"
		case r == nil || !r.open:
			countedWant, whyNot = false, "round not open"
		case a.Based != r.based:
			countedWant, whyNot = false, "base block"
		case a.Dec != o.tokenDec[fid]:
			countedWant, whyNot = false, "decimal"
		default:
			for _, d := range a.Dets {
				if d == "" {
					countedWant, whyNot = false, "empty source round"
				}
			}
			// a value that is not a base-10 integer cannot be counted (the statement lists
			// necessary conditions only; such a report must then change nothing but the nonce)
			for _, p := range a.Prices {
				if _, ok := new(big.Int).SetString(p, 10); !ok {
					countedWant, whyNot = false, "price is not an integer"
				}
			}
			if countedWant {
				fresh := false
				for _, d := range a.Dets {
					if !r.seen[val][d] {
						fresh = true
					}
				}
				if !fresh {
					countedWant, whyNot = false, "source rounds already reported"
				}
			}
		}
	}
	coCounted := false
	if coVal != "" && admitted && countedWant {
		// the first message is counted; would the second be, right after it?
		_, isValB := o.powers[coVal]
		closes := o.wouldClose(a, val, r)
		fresh := false
		for _, d := range a.Dets {
			if r.seen[coVal] == nil || !r.seen[coVal][d] {
				fresh = true
			}
		}
		switch {
		case !isValB:
			countedWant, whyNot = false, "the transaction's second message is not from a validator, the transaction fails as a whole"
		case closes:
			countedWant, whyNot = false, "the first message closes the round, the transaction's second message fails, the transaction fails as a whole"
		case !fresh:
			countedWant, whyNot = false, "the transaction's second message carries nothing new, the transaction fails as a whole"
		default:
			coCounted = true
		}
	}
	if twoNonces && countedWant {
		// the second message repeats the first one's source rounds: it carries nothing new, fails,
		// and the transaction with it; nothing of the first message may stay either
		countedWant, whyNot = false, "the transaction's second message carries nothing new, the transaction fails as a whole"
	}
	if out.OK != countedWant {
		return violation("C13.I2.counting", "%s at height %d time %s: counted=%v, model says %v (%s); log: %s", a.String(), m.C.Height, m.C.Time.UTC().Format("15:04:05"), out.OK, countedWant, whyNot, truncate(out.Note, 160))
	}
	after := m.C.Snap(m.C.Ctx(), "oracle")
	d := sim.Diff(o.snap, after)
	memNow := sim.OracleMemDump()
	switch {
	case !admitted:
		o.rejected++
		o.classesInHistory["rejected"] = true
		if len(d) > 0 {
			return violation("C13.I3.rejected-changed-state", "rejected submission changed %s", d[0].String())
		}
		if memNow != o.mem {
			return violation("C13.I3.rejected-changed-memory", "rejected submission changed the oracle's in-memory state")
		}
		return nil
	case !countedWant:
		o.admittedOnly++
		o.classesInHistory["admitted-only"] = true
		for _, e := range d {
			if !strings.Contains(string(e.Key), sdk.ConsAddress(val).String()) && !(coVal != "" && strings.Contains(string(e.Key), sdk.ConsAddress(coVal).String())) {
				return violation("C13.I4.uncounted-changed-state", "admitted but uncounted submission changed more than the validator's nonce: %s", e.String())
			}
		}
		// (the aggregator keeps an in-memory copy of each validator's nonces; that copy may move
		// with the nonce, everything else must stay)
		if sim.OracleMemDumpNoNonce() != o.memNoNonce {
			return violation("C13.I4.uncounted-changed-memory", "admitted but uncounted submission (%s) changed the oracle's in-memory state", whyNot)
		}
		return nil
	}
	o.counted++
	o.classesInHistory["counted"] = true
	if coCounted {
		o.TwoSigner++
		o.takeIn(a, val, r) // (does not close the round: checked above)
		return o.consume(m, a, coVal, fid, r)
	}
	return o.consume(m, a, val, fid, r)
}

// takeIn: the round model takes in a counted submission; it reports whether the round closes
// with it (the closing itself is applied by closeRound).
func (o *oracleInv) takeIn(a *Action, val string, r *roundModel) bool {
	power := o.powers[val]
	if r.seen[val] == nil {
		r.seen[val] = map[string]bool{}
	}
	r.reporters[val] = true
	if !r.confirmed {
		for i, det := range a.Dets {
			if r.seen[val][det] || len(r.seen[val]) >= o.maxDet {
				continue
			}
			r.seen[val][det] = true
			if r.dets[det] == nil {
				r.dets[det] = map[string]*big.Int{}
				r.order = append(r.order, det)
			}
			price := a.Prices[i]
			if r.dets[det][price] == nil {
				r.dets[det][price] = new(big.Int)
			}
			r.dets[det][price].Add(r.dets[det][price], big.NewInt(power))
			if exceeds(r.dets[det][price].Int64(), o.total) {
				r.confirmed, r.confirmedPrice = true, price
				break
			}
		}
	} else {
		for _, det := range a.Dets {
			if len(r.seen[val]) < o.maxDet {
				r.seen[val][det] = true
			}
		}
	}
	reportPower := int64(0)
	for v := range r.reporters {
		reportPower += o.powers[v]
	}
	return r.confirmed && exceeds(reportPower, o.total)
}

// closeRound: the round closes now with the agreed price (the statement: the round closes with
// that price; round ids advance by one per interval, so the stored next round id must be this
// round's id).
func (o *oracleInv) closeRound(m *Machine, fid uint64, r *roundModel) {
	t := o.stored[o.feeders[fid].Token]
	t.prices[r.roundID] = r.confirmedPrice
	t.next = r.roundID + 1
	o.prune(t)
	r.open = false
	o.Finalized = append(o.Finalized, [3]uint64{fid, uint64(m.C.Height), r.based})
	o.byConsensus++
	o.clearNonces(fid)
}

// consume: the round model takes in a counted submission.
func (o *oracleInv) consume(m *Machine, a *Action, val string, fid uint64, r *roundModel) error {
	if o.takeIn(a, val, r) {
		o.closeRound(m, fid, r)
	}
	return o.compareStored(m)
}

// wouldClose: would the round close if this validator's report were taken in now? (evaluated on
// a copy of the round model)
func (o *oracleInv) wouldClose(a *Action, val string, r *roundModel) bool {
	if r == nil {
		return false
	}
	return o.takeIn(a, val, r.clone())
}

func (r *roundModel) clone() *roundModel {
	c := &roundModel{based: r.based, roundID: r.roundID, open: r.open, confirmed: r.confirmed, confirmedPrice: r.confirmedPrice,
		seen: map[string]map[string]bool{}, dets: map[string]map[string]*big.Int{}, reporters: map[string]bool{}, order: append([]string{}, r.order...)}
	for v, ds := range r.seen {
		c.seen[v] = map[string]bool{}
		for d, b := range ds {
			c.seen[v][d] = b
		}
	}
	for d, ps := range r.dets {
		c.dets[d] = map[string]*big.Int{}
		for p, w := range ps {
			c.dets[d][p] = new(big.Int).Set(w)
		}
	}
	for v, b := range r.reporters {
		c.reporters[v] = b
	}
	return c
}

func (o *oracleInv) NonTrivialRounds() bool {
	return o.byConsensus >= 1 && o.byCarry >= 1 && o.unequalPowers
}
func (o *oracleInv) NonTrivialAdmission() bool {
	return o.classesInHistory["rejected"] && o.classesInHistory["admitted-only"] && o.classesInHistory["counted"]
}

func sortedU64(m map[uint64]*roundModel) []uint64 {
	out := make([]uint64, 0, len(m))
	for k := range m {
		out = append(out, k)
	}
	sort.Slice(out, func(i, j int) bool { return out[i] < out[j] })
	return out
}
func sortedU64f(m map[uint64]sim.FeederInfo) []uint64 {
	out := make([]uint64, 0, len(m))
	for k := range m {
		out = append(out, k)
	}
	sort.Slice(out, func(i, j int) bool { return out[i] < out[j] })
	return out
}
func sortedU64t(m map[uint64]*tokenModel) []uint64 {
	out := make([]uint64, 0, len(m))
	for k := range m {
		out = append(out, k)
	}
	sort.Slice(out, func(i, j int) bool { return out[i] < out[j] })
	return out
}

var _ = fmt.Sprintf
