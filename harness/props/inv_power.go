package props

import (
	"errors"
	"fmt"
	"math/big"
	"strings"

	avstypes "github.com/ExocoreNetwork/exocore/x/avs/types"
)

// powerInv is the reference model of property C05. Between two blocks (after Commit) it
// computes, for every registered AVS and every operator, the priced stake from the decoded
// ledger and the latest stored oracle prices with exact integer arithmetic. When the next
// BeginBlock ends an epoch of the AVS's identifier (from the epoch preceding its starting epoch
// onwards), the recorded values must be exactly those figures for the operators that are opted
// in, and nothing for everybody else.
type powerInv struct {
	opted    map[string]bool // operator bech32 + "/" + lower-case AVS address
	expected map[string]map[string]opValues
	avsAt    map[string]avstypes.AVSInfo // AVS records at the time of the expectation (lower-case address)
	preEpoch map[string]int64
	checked  bool
	pending  error
	// statistics
	Checks, Operators, BelowMin, Unpriced, MultiAsset, FreshAVS, OptedOutSeen int
	// AsC09: the oracle judges the second sentence of C09 - an AVS whose voting-power update
	// fails (it supports an asset the oracle cannot price) keeps exactly its previous records, and
	// every other AVS of the same epoch end is still updated (violations are reported under C09)
	AsC09                                             bool
	FailedItems, FailedWithOperators, OthersAfterFail int
	recorded                                          map[string]string // AVS -> digest of its recorded values before the block
}

func newPowerInv() *powerInv { return &powerInv{opted: map[string]bool{}} }

func (inv *powerInv) Init(m *Machine) error {
	for i := 0; i < m.W.Cfg.NumValidators; i++ {
		inv.opted[m.W.Operators[i].Bech32()+"/"+m.W.AvsAddr] = true
	}
	inv.snapshotEpochs(m)
	return inv.expect(m)
}

func (inv *powerInv) snapshotEpochs(m *Machine) {
	inv.preEpoch = map[string]int64{}
	for _, e := range m.C.App.EpochsKeeper.AllEpochInfos(m.C.Ctx()) {
		inv.preEpoch[e.Identifier] = e.CurrentEpoch
	}
}

// expect computes the expected values of every operator for every AVS from the committed state.
func (inv *powerInv) expect(m *Machine) error {
	ctx := m.C.Ctx()
	v, err := Observe(m.C)
	if err != nil {
		return nil // an unreadable ledger is C01's subject
	}
	inv.expected = map[string]map[string]opValues{}
	inv.avsAt = map[string]avstypes.AVSInfo{}
	inv.recorded = map[string]string{}
	m.C.App.AVSManagerKeeper.IterateAVSInfo(ctx, func(_ int64, info avstypes.AVSInfo) bool {
		addr := strings.ToLower(info.AvsAddress)
		inv.avsAt[addr] = info
		per := map[string]opValues{}
		for _, op := range m.W.Operators {
			per[op.Bech32()] = expectedValues(m, ctx, v, op.Bech32(), info.AssetIDs)
		}
		inv.expected[addr] = per
		inv.recorded[addr] = inv.recordedDigest(m, info)
		return false
	})
	return nil
}

func (inv *powerInv) MidBlock(m *Machine) error {
	inv.snapshotEpochs(m)
	inv.checked = false
	return inv.expect(m)
}

func (inv *powerInv) Before(m *Machine, a *Action) {}

// PreSlash runs at BeginBlock position, before a slash touches the pools.
func (inv *powerInv) PreSlash(m *Machine, a *Action, infrH int64) {
	if err := inv.compare(m); err != nil {
		inv.pending = err
	}
}

func (inv *powerInv) After(m *Machine, a *Action, o Outcome) error {
	if inv.pending != nil {
		err := inv.pending
		inv.pending = nil
		return err
	}
	if err := inv.compare(m); err != nil {
		return err
	}
	// book accepted opt-ins / opt-outs
	if o.OK {
		switch a.Kind {
		case "optIn":
			inv.opted[m.W.Operators[a.Op].Bech32()+"/"+m.W.AvsAddr] = true
		case "optOut":
			inv.opted[m.W.Operators[a.Op].Bech32()+"/"+m.W.AvsAddr] = false
		case "avsOptIn", "avsOptOut":
			x := a.Avs
			avsAddr, opIdx := lowerHex(m.Ident(x.From).Addr), x.Sender
			if x.Via == 1 {
				avsAddr, opIdx = lowerHex(m.identAddr(x.Target)), x.From
			}
			inv.opted[m.Ident(opIdx).Bech32()+"/"+avsAddr] = a.Kind == "avsOptIn"
		case "avsDeregister":
			// a deregistered AVS keeps no opt-ins that matter to this property
		}
	}
	return nil
}

// compare runs once per block, at its beginning: which epochs ended in this BeginBlock?
func (inv *powerInv) compare(m *Machine) error {
	if inv.checked {
		return nil
	}
	inv.checked = true
	c := m.C
	ctx := c.Ctx()
	for _, e := range c.App.EpochsKeeper.AllEpochInfos(ctx) {
		before, ok := inv.preEpoch[e.Identifier]
		if !ok || e.CurrentEpoch == before || before < 1 {
			continue
		}
		ended := before
		failedNow, okNow := 0, 0
		defer func() {
			if failedNow > 0 {
				inv.OthersAfterFail += okNow
			}
		}()
		for _, addr := range sortedKeys(inv.avsAt) {
			info := inv.avsAt[addr]
			if info.EpochIdentifier != e.Identifier || ended < int64(info.StartingEpoch)-1 {
				continue
			}
			failedBefore := inv.FailedItems
			if err := inv.checkAVS(m, addr, info, ended); err != nil {
				var v *Violation
				if inv.AsC09 && errors.As(err, &v) && !strings.HasPrefix(v.ID, "C09.") && inv.FailedItems > 0 {
					return violation("C09.I3.other-block-items-not-processed", "an AVS whose update fails ended its epoch in the same block; %s", v.Error())
				}
				return err
			}
			if inv.FailedItems > failedBefore {
				failedNow++
				if strings.Contains(inv.recorded[addr], "/") {
					inv.FailedWithOperators++
				}
			} else {
				okNow++
			}
		}
	}
	return nil
}

func dec18(s fmt.Stringer) *big.Int {
	// "123.450000000000000000" -> 123450000000000000000
	str := s.String()
	neg := strings.HasPrefix(str, "-")
	str = strings.TrimPrefix(str, "-")
	parts := strings.SplitN(str, ".", 2)
	frac := ""
	if len(parts) == 2 {
		frac = parts[1]
	}
	for len(frac) < 18 {
		frac += "0"
	}
	v, ok := new(big.Int).SetString(parts[0]+frac[:18], 10)
	if !ok {
		return nil
	}
	if neg {
		v.Neg(v)
	}
	return v
}

// recordedDigest renders everything the operator module records for an AVS.
func (inv *powerInv) recordedDigest(m *Machine, info avstypes.AVSInfo) string {
	ctx := m.C.Ctx()
	out := ""
	if v, err := m.C.App.OperatorKeeper.GetAVSUSDValue(ctx, info.AvsAddress); err == nil {
		out += "avs=" + v.String() + ";"
	} else {
		out += "avs=none;"
	}
	all, err := m.C.App.OperatorKeeper.GetAllOperatorUSDValues(ctx)
	if err == nil {
		for _, e := range all {
			if strings.HasPrefix(strings.ToLower(e.Key), strings.ToLower(info.AvsAddress)+"/") {
				out += e.Key + "=" + e.OptedUSDValue.String() + ";"
			}
		}
	}
	return out
}

// unpriceable: does the AVS support an asset the oracle cannot price?
func unpriceable(m *Machine, info avstypes.AVSInfo) bool {
	for _, id := range info.AssetIDs {
		for _, u := range m.W.Cfg.UnpricedAssets {
			if strings.EqualFold(id, m.W.AssetIDs[u]) {
				return true
			}
		}
	}
	return false
}

func (inv *powerInv) checkAVS(m *Machine, addr string, info avstypes.AVSInfo, ended int64) error {
	c := m.C
	ctx := c.Ctx()
	if unpriceable(m, info) {
		// this AVS's update fails as a whole: nothing of it may have been written
		inv.FailedItems++
		if now := inv.recordedDigest(m, info); now != inv.recorded[addr] {
			return violation("C09.I3.failed-block-item-left-trace", "epoch %d of %s ended: the voting-power update of AVS %s fails (it supports an asset the oracle cannot price) but its records changed: before %s after %s", ended, info.EpochIdentifier, addr, inv.recorded[addr], now)
		}
		return nil
	}
	inv.Checks++
	if ended == int64(info.StartingEpoch)-1 {
		inv.FreshAVS++
	}
	if len(info.AssetIDs) > 1 {
		inv.MultiAsset++
	}
	min := new(big.Int).Mul(new(big.Int).SetUint64(info.MinSelfDelegation), e18)
	sumLo, sumHi := new(big.Int), new(big.Int)
	for _, op := range m.W.Operators {
		key := op.Bech32() + "/" + addr
		want := inv.expected[addr][op.Bech32()]
		rec, err := c.App.OperatorKeeper.GetOperatorOptedUSDValue(ctx, info.AvsAddress, op.Bech32())
		if !inv.opted[key] {
			if err == nil && (rec.TotalUSDValue.IsPositive() || rec.ActiveUSDValue.IsPositive() || rec.SelfUSDValue.IsPositive()) {
				return violation("C05.I4.not-opted-in-has-value", "epoch %d of %s ended: operator %s is not opted into AVS %s but has recorded values %v", ended, info.EpochIdentifier, op.Bech32(), addr, rec)
			}
			inv.OptedOutSeen++
			continue
		}
		if err != nil {
			return violation("C05.I1.value-missing", "epoch %d of %s ended: no recorded value of opted-in operator %s for AVS %s: %v", ended, info.EpochIdentifier, op.Bech32(), addr, err)
		}
		inv.Operators++
		total, self, active := dec18(rec.TotalUSDValue), dec18(rec.SelfUSDValue), dec18(rec.ActiveUSDValue)
		if total == nil || self == nil || active == nil || total.Sign() < 0 || self.Sign() < 0 || active.Sign() < 0 {
			return violation("C05.I5.negative", "operator %s AVS %s: recorded values %v", op.Bech32(), addr, rec)
		}
		if total.Cmp(want.Total) != 0 {
			return violation("C05.I1.total-value", "epoch %d of %s ended: operator %s for AVS %s (assets %v) has total value %s, pools x prices give %s (x10^-18)", ended, info.EpochIdentifier, op.Bech32(), addr, info.AssetIDs, total, want.Total)
		}
		if self.Cmp(want.SelfLo) != 0 && self.Cmp(want.SelfHi) != 0 {
			return violation("C05.I2.self-value", "epoch %d of %s ended: operator %s for AVS %s has self value %s, the token equivalent of its self share gives %s (x10^-18)", ended, info.EpochIdentifier, op.Bech32(), addr, self, want.SelfLo)
		}
		wantActive := new(big.Int)
		if self.Cmp(min) >= 0 {
			wantActive = want.Total
		} else {
			inv.BelowMin++
		}
		if active.Cmp(wantActive) != 0 {
			return violation("C05.I3.active-value", "epoch %d of %s ended: operator %s for AVS %s: self %s, minimum %s, total %s, but active value %s", ended, info.EpochIdentifier, op.Bech32(), addr, self, min, total, active)
		}
		sumLo.Add(sumLo, wantActive)
		sumHi.Add(sumHi, wantActive)
	}
	got, err := c.App.OperatorKeeper.GetAVSUSDValue(ctx, info.AvsAddress)
	if err != nil {
		return violation("C05.I3.avs-value-missing", "epoch %d of %s ended: AVS %s has no recorded value: %v", ended, info.EpochIdentifier, addr, err)
	}
	if g := dec18(got); g == nil || g.Cmp(sumLo) != 0 {
		return violation("C05.I3.avs-value", "epoch %d of %s ended: AVS %s has value %s, the active values sum to %s (x10^-18)", ended, info.EpochIdentifier, addr, got, sumLo)
	}
	// no recorded entry for anybody else
	all, err := c.App.OperatorKeeper.GetAllOperatorUSDValues(ctx)
	if err == nil {
		for _, e := range all {
			parts := strings.Split(e.Key, "/")
			if len(parts) != 2 || strings.ToLower(parts[0]) != addr {
				continue
			}
			if !inv.opted[parts[1]+"/"+addr] && (e.OptedUSDValue.TotalUSDValue.IsPositive() || e.OptedUSDValue.ActiveUSDValue.IsPositive()) {
				return violation("C05.I4.not-opted-in-has-value", "AVS %s records values %v for %s, which is not opted in", addr, e.OptedUSDValue, parts[1])
			}
		}
	}
	return nil
}
