package props

import (
	"encoding/binary"
	"fmt"

	avstypes "github.com/ExocoreNetwork/exocore/x/avs/types"
	sdk "github.com/cosmos/cosmos-sdk/types"
)

// opFacts is what the chain's getters say about one operator's dogfood key state.
type opFacts struct {
	Removing   bool
	HasKey     bool
	Key        string // consensus address (bytes as string) of the current key
	HasPrev    bool
	Prev       string
	FinishEp   int64
	KeyActive  bool // current key is in the consensus validator set (the harness' mirror)
	PrevActive bool
}

type dogfoodFacts struct {
	Epoch int64 // current dogfood epoch number
	N     int64 // EpochsUntilUnbonded
	Ops   []opFacts
}

func (m *Machine) chainIDNoRev() string { return avstypes.ChainIDWithoutRevision(m.W.Cfg.ChainID) }

func observeDogfood(m *Machine) dogfoodFacts {
	ctx := m.C.Ctx()
	c := m.C
	params := c.App.StakingKeeper.GetDogfoodParams(ctx)
	info, _ := c.App.EpochsKeeper.GetEpochInfo(ctx, params.EpochIdentifier)
	f := dogfoodFacts{Epoch: info.CurrentEpoch, N: int64(params.EpochsUntilUnbonded)}
	chainID := m.chainIDNoRev()
	for _, o := range m.W.Operators {
		var of opFacts
		of.Removing = c.App.OperatorKeeper.IsOperatorRemovingKeyFromChainID(ctx, o.Acc(), chainID)
		if found, key, _ := c.App.OperatorKeeper.GetOperatorConsKeyForChainID(ctx, o.Acc(), chainID); found {
			of.HasKey, of.Key = true, string(key.ToConsAddr())
			of.KeyActive = c.ValSet.HasAddress(key.ToConsAddr())
		}
		if found, key, _ := c.App.OperatorKeeper.GetOperatorPrevConsKeyForChainID(ctx, o.Acc(), chainID); found {
			of.HasPrev, of.Prev = true, string(key.ToConsAddr())
			of.PrevActive = c.ValSet.HasAddress(key.ToConsAddr())
		}
		of.FinishEp = c.App.StakingKeeper.GetOperatorOptOutFinishEpoch(ctx, o.Acc())
		f.Ops = append(f.Ops, of)
	}
	return f
}

func (m *Machine) reverseLookup(cons string) (bool, string) {
	found, op := m.C.App.OperatorKeeper.GetOperatorAddressForChainIDAndConsAddr(m.C.Ctx(), m.chainIDNoRev(), sdk.ConsAddress(cons))
	return found, op.String()
}

// queueEntry is one epoch-scheduled item of the model.
type queueEntry struct {
	Kind  string // hold | optout | prune
	ID    string // record key | operator index | consensus address
	Op    int
	E     int64 // released in the block whose BeginBlock closes epoch E
	RegEp int64
	RegN  int64
}

// queuesInv is the C16 oracle.
type queuesInv struct {
	before   dogfoodFacts
	prevView *View
	entries  []*queueEntry
	// epochs closed by the BeginBlock that ended the previous block step: their entries are
	// processed by the EndBlock of the block now in progress
	closedPending []int64
	lastClosed    int64
	// statistics
	kindsReleased         map[string]int
	regEpochs             map[int64]bool
	releasedUnderChangedN int
	catchUp               int
	heldPlaced, notHeld   int
	heldOptOutLongerN     int
	prevReleased          map[string]bool
	// model-owned registry: consensus addresses each operator has set and that have not been
	// pruned / removed yet (independent of the chain's own "previous key" bookkeeping)
	owned           []map[string]bool
	replacedInEpoch map[int]int64 // operator -> epoch of its first not-yet-matured replacement
}

func (q *queuesInv) Init(m *Machine) error {
	q.before = observeDogfood(m)
	v, err := Observe(m.C)
	if err != nil {
		return err
	}
	q.prevView = v
	q.kindsReleased = map[string]int{}
	q.regEpochs = map[int64]bool{}
	q.lastClosed = q.before.Epoch - 1
	q.owned = make([]map[string]bool, len(m.W.Operators))
	q.replacedInEpoch = map[int]int64{}
	for i := range q.owned {
		q.owned[i] = map[string]bool{}
		if q.before.Ops[i].HasKey {
			q.owned[i][q.before.Ops[i].Key] = true
		}
	}
	return nil
}

// activeOwned: does any key the operator has set (and that is not pruned yet) sit in the
// consensus validator set?
func (q *queuesInv) activeOwned(m *Machine, op int) bool {
	for k := range q.owned[op] {
		if m.C.ValSet.HasAddress([]byte(k)) {
			return true
		}
	}
	return false
}

func (q *queuesInv) optOutEntry(op int) *queueEntry {
	for _, en := range q.entries {
		if en.Kind == "optout" && en.Op == op {
			return en
		}
	}
	return nil
}

// MidBlock runs between EndBlock/Commit and the next BeginBlock: the per-block pending lists
// must have been consumed.
func (q *queuesInv) MidBlock(m *Machine) error {
	for _, kv := range m.C.Dump(m.C.CommittedCtx(), "dogfood") {
		if len(kv.Key) == 1 && (kv.Key[0] == 8 || kv.Key[0] == 9 || kv.Key[0] == 10) && len(kv.Value) > 0 {
			return violation("C16.I4.pending-not-cleared", "pending list (store key %d) still holds %d bytes after EndBlock of height %d: it would be applied again", kv.Key[0], len(kv.Value), m.C.Height)
		}
		if len(kv.Key) == 1 && kv.Key[0] == 11 {
			return violation("C16.I4.pending-not-cleared", "epoch-end marker still set after EndBlock of height %d", m.C.Height)
		}
	}
	return nil
}

func (q *queuesInv) Before(m *Machine, a *Action) { q.before = observeDogfood(m) }

func isBlockStep(a *Action) bool {
	switch a.Kind {
	case "nextBlock", "slash", "jail", "unjail", "evidence":
		return true
	}
	return false
}

func (q *queuesInv) After(m *Machine, a *Action, o Outcome) error {
	cur, err := Observe(m.C)
	if err != nil {
		return violation("C16.I0.observe", "%v", err)
	}
	prev := q.prevView
	defer func() { q.prevView = cur }()
	now := observeDogfood(m)
	b := q.before
	holdOf := func(v *View, key string) (uint64, bool) {
		for _, u := range v.Undelegations {
			if u.Key == key {
				return u.Hold, true
			}
		}
		return 0, false
	}

	if isBlockStep(a) {
		// ---- the EndBlock that just ran processed the epochs in closedPending
		due := map[int64]bool{}
		for _, e := range q.closedPending {
			due[e] = true
		}
		var keep []*queueEntry
		for _, en := range q.entries {
			isDue := due[en.E]
			switch en.Kind {
			case "hold":
				hb, existedBefore := holdOf(prev, en.ID)
				ha, existsAfter := holdOf(cur, en.ID)
				if !existedBefore {
					continue // record already gone (cannot happen while held; C03 judges releases)
				}
				if isDue {
					if existsAfter && ha != hb-1 {
						return violation("C16.I1.hold-not-released", "hold on record %q registered in epoch %d (N=%d) was due when epoch %d closed but its hold count went %d -> %d", en.ID, en.RegEp, en.RegN, en.E, hb, ha)
					}
					q.noteRelease(en, now)
					continue
				}
				if en.E <= q.lastClosed && !due[en.E] {
					return violation("C16.I1.left-behind", "hold on record %q was due at the close of epoch %d, which is past (last closed %d)", en.ID, en.E, q.lastClosed)
				}
				if !existsAfter {
					return violation("C16.I1.early-release", "held record %q (due at the close of epoch %d) disappeared while epoch %d is current", en.ID, en.E, now.Epoch)
				}
				if ha != hb {
					return violation("C16.I1.early-release", "hold on record %q (due at the close of epoch %d) changed %d -> %d in a block that closed %v", en.ID, en.E, hb, ha, q.closedPending)
				}
				keep = append(keep, en)
			case "optout":
				of := now.Ops[en.Op]
				if isDue {
					if of.Removing || of.HasKey {
						return violation("C16.I1.optout-not-finished", "opt out of operator %d registered in epoch %d (N=%d) was due when epoch %d closed, but removing=%v hasKey=%v", en.Op, en.RegEp, en.RegN, en.E, of.Removing, of.HasKey)
					}
					if found, _ := m.reverseLookup(en.ID); found {
						return violation("C16.I1.optout-not-finished", "opt out of operator %d finished but its consensus address still resolves", en.Op)
					}
					q.noteRelease(en, now)
					continue
				}
				if en.E <= q.lastClosed {
					return violation("C16.I1.left-behind", "opt out of operator %d was due at the close of epoch %d, which is past (last closed %d)", en.Op, en.E, q.lastClosed)
				}
				if !of.Removing || !of.HasKey {
					return violation("C16.I1.early-release", "opt out of operator %d (due at the close of epoch %d) finished early: removing=%v hasKey=%v, current epoch %d", en.Op, en.E, of.Removing, of.HasKey, now.Epoch)
				}
				keep = append(keep, en)
			case "prune":
				found, _ := m.reverseLookup(en.ID)
				if isDue {
					if found {
						return violation("C16.I1.prune-not-done", "replaced key of operator %d registered in epoch %d (N=%d) was due for pruning when epoch %d closed, but still resolves", en.Op, en.RegEp, en.RegN, en.E)
					}
					q.noteRelease(en, now)
					continue
				}
				if en.E <= q.lastClosed {
					return violation("C16.I1.left-behind", "pruning of a replaced key of operator %d was due at the close of epoch %d, which is past", en.Op, en.E)
				}
				if !found {
					return violation("C16.I1.early-release", "replaced key of operator %d (due at the close of epoch %d) was pruned early, current epoch %d", en.Op, en.E, now.Epoch)
				}
				keep = append(keep, en)
			}
		}
		q.entries = keep
		for _, e := range q.closedPending {
			if e > q.lastClosed {
				q.lastClosed = e
			}
		}
		// ---- which epochs did the BeginBlock of the new block close?
		q.closedPending = q.closedPending[:0]
		for e := b.Epoch; e < now.Epoch; e++ {
			q.closedPending = append(q.closedPending, e)
		}
		if len(due) > 0 {
			// the chain forgets "previous keys" in the EndBlock that follows an epoch end, i.e. in
			// the EndBlock that has just run: a replacement made earlier in that very block (after
			// the BeginBlock that closed the epoch) is forgotten with it, and the next replacement
			// is a first one again
			q.replacedInEpoch = map[int]int64{}
		}
		if now.Epoch-b.Epoch > 1 {
			return violation("C16.I3.epoch-jump", "dogfood epoch advanced from %d to %d in one block", b.Epoch, now.Epoch)
		}
		// no hold count may have changed for records that are not model entries
		for _, u := range cur.Undelegations {
			hb, ok := holdOf(prev, u.Key)
			if ok && hb != u.Hold && !q.isEntryJustReleased(u.Key, due) {
				known := false
				for _, en := range q.entries {
					if en.Kind == "hold" && en.ID == u.Key {
						known = true
					}
				}
				if !known {
					return violation("C16.I2.hold-changed", "hold count of record %q changed %d -> %d over a block end without a due entry", u.Key, hb, u.Hold)
				}
			}
		}
		if err := q.residue(m); err != nil {
			return err
		}
		q.prevReleased = map[string]bool{}
		return nil
	}

	// ---- transactions
	switch a.Kind {
	case "undelegate", "nativeUndelegate":
		if !o.OK {
			break
		}
		prevKeys := map[string]bool{}
		for _, u := range prev.Undelegations {
			prevKeys[u.Key] = true
		}
		for _, u := range cur.Undelegations {
			if prevKeys[u.Key] {
				continue
			}
			opIdx := -1
			for i, op := range m.W.Operators {
				if op.Bech32() == u.Operator {
					opIdx = i
				}
			}
			if opIdx < 0 {
				continue
			}
			of := b.Ops[opIdx]
			wantHold, E := uint64(0), int64(0)
			oe := q.optOutEntry(opIdx)
			switch {
			case oe != nil && !q.dueNowHas(oe.E):
				// opting out: the undelegation matures together with the opt out
				wantHold, E = 1, oe.E
				if oe.E > b.Epoch+b.N {
					q.heldOptOutLongerN++
				}
			case oe != nil:
				// opt out matures at the end of this very block: nothing at stake any more
			case of.Removing:
				// (never active: completes at once)
			case q.activeOwned(m, opIdx):
				wantHold, E = 1, b.Epoch+b.N
			}
			if u.Hold != wantHold {
				return violation("C16.I2.hold-placement", "undelegation %q from operator %d (removing=%v finish=%d key active=%v prev active=%v, epoch %d N=%d): hold count %d, expected %d", u.Key, opIdx, of.Removing, of.FinishEp, of.KeyActive, of.HasPrev && of.PrevActive, b.Epoch, b.N, u.Hold, wantHold)
			}
			if wantHold == 1 {
				q.heldPlaced++
				q.entries = append(q.entries, &queueEntry{Kind: "hold", ID: u.Key, Op: opIdx, E: E, RegEp: b.Epoch, RegN: b.N})
				q.regEpochs[b.Epoch] = true
			} else {
				q.notHeld++
			}
		}
	case "optOut":
		if !o.OK {
			break
		}
		of := b.Ops[a.Op]
		if of.HasKey && q.activeOwned(m, a.Op) {
			q.entries = append(q.entries, &queueEntry{Kind: "optout", ID: of.Key, Op: a.Op, E: b.Epoch + b.N, RegEp: b.Epoch, RegN: b.N})
			q.regEpochs[b.Epoch] = true
			// holds already placed on this operator's undelegations keep their own epochs
		} else if of.HasKey {
			// never active with any key: the removal completes at once
			q.owned[a.Op] = map[string]bool{}
		}
	case "setKey":
		if !o.OK {
			break
		}
		of := b.Ops[a.Op]
		nf := now.Ops[a.Op]
		if nf.HasKey {
			q.owned[a.Op][nf.Key] = true
		}
		if of.HasKey && nf.HasKey && of.Key != nf.Key {
			_, replacedAlready := q.replacedInEpoch[a.Op]
			switch {
			case m.C.ValSet.HasAddress([]byte(of.Key)) && !replacedAlready:
				q.entries = append(q.entries, &queueEntry{Kind: "prune", ID: of.Key, Op: a.Op, E: b.Epoch + b.N, RegEp: b.Epoch, RegN: b.N})
				q.regEpochs[b.Epoch] = true
				q.replacedInEpoch[a.Op] = b.Epoch
			case !m.C.ValSet.HasAddress([]byte(of.Key)):
				// a key that never became active is dropped at once
				delete(q.owned[a.Op], of.Key)
			}
		}
	case "optIn":
		if o.OK {
			if nf := now.Ops[a.Op]; nf.HasKey {
				q.owned[a.Op][nf.Key] = true
			}
		}
	}
	// outside block ends no hold count of an existing record changes
	for _, u := range cur.Undelegations {
		if hb, ok := holdOf(prev, u.Key); ok && hb != u.Hold {
			return violation("C16.I2.hold-changed", "hold count of record %q changed %d -> %d during %s", u.Key, hb, u.Hold, a.Kind)
		}
	}
	return nil
}

func (q *queuesInv) isEntryJustReleased(key string, due map[int64]bool) bool {
	return q.prevReleased[key]
}

func (q *queuesInv) dueNowHas(e int64) bool {
	for _, x := range q.closedPending {
		if x == e {
			return true
		}
	}
	return false
}

func (q *queuesInv) noteRelease(en *queueEntry, now dogfoodFacts) {
	switch en.Kind {
	case "prune":
		delete(q.owned[en.Op], en.ID)
	case "optout":
		q.owned[en.Op] = map[string]bool{}
	}
	q.kindsReleased[en.Kind]++
	if q.prevReleased == nil {
		q.prevReleased = map[string]bool{}
	}
	q.prevReleased[en.ID] = true
	if now.N != en.RegN {
		q.releasedUnderChangedN++
	}
}

// residue: no queue bucket for an epoch that has already been processed, by raw scan.
func (q *queuesInv) residue(m *Machine) error {
	for _, kv := range m.C.Dump(m.C.Ctx(), "dogfood") {
		if len(kv.Key) == 9 && (kv.Key[0] == 3 || kv.Key[0] == 5 || kv.Key[0] == 6) {
			ep := int64(binary.BigEndian.Uint64(kv.Key[1:]))
			if ep <= q.lastClosed {
				return violation("C16.I4.queue-residue", "queue bucket (prefix %d) for epoch %d still present after epoch %d was processed", kv.Key[0], ep, q.lastClosed)
			}
		}
	}
	return nil
}

func (q *queuesInv) NonTrivial() (bool, []string) {
	kinds := 0
	total := 0
	for _, n := range q.kindsReleased {
		if n > 0 {
			kinds++
		}
		total += n
	}
	return total >= 3 && kinds >= 2 && len(q.regEpochs) >= 2, []string{fmt.Sprint(kinds)}
}
