package props

import (
	"fmt"

	sdk "github.com/cosmos/cosmos-sdk/types"
)

// registryInv is the static part of the C07 oracle: the three consensus-key indexes agree, keys
// are injective, and everything in the consensus validator set stays resolvable (slashable).
// The timed part (replaced / removed keys stay resolvable until the unbonding epochs end, and
// are pruned then) is the queue model (queuesInv), which runs next to it.
type registryInv struct {
	q *queuesInv
	// statistics
	replacedActive int
	epochAfter     bool
	opsWithKey     map[int]bool
}

func (r *registryInv) Init(m *Machine) error {
	r.opsWithKey = map[int]bool{}
	return r.static(m)
}

func (r *registryInv) Before(m *Machine, a *Action) {}

func (r *registryInv) static(m *Machine) error {
	c := m.C
	ctx := c.Ctx()
	chainID := m.chainIDNoRev()
	// forward index 2 (chain -> operator -> key)
	ops2, keys2 := c.App.OperatorKeeper.GetOperatorsForChainID(ctx, chainID)
	idx2 := map[string]string{}
	for i, o := range ops2 {
		idx2[o.String()] = string(keys2[i].ToConsAddr())
	}
	owner := map[string]string{} // consensus address -> operator (current keys)
	n1 := 0
	for i, o := range m.W.Operators {
		found, key, err := c.App.OperatorKeeper.GetOperatorConsKeyForChainID(ctx, o.Acc(), chainID)
		if err != nil {
			return violation("C07.I0.observe", "%v", err)
		}
		if !found {
			if k2, ok := idx2[o.Bech32()]; ok {
				return violation("C07.I1.forward-indexes", "operator %d: chain->operator->key has %x, operator->key has nothing", i, k2)
			}
			continue
		}
		n1++
		r.opsWithKey[i] = true
		cons := string(key.ToConsAddr())
		if k2, ok := idx2[o.Bech32()]; !ok || k2 != cons {
			return violation("C07.I1.forward-indexes", "operator %d: operator->key has %x, chain->operator->key has %x (present=%v)", i, cons, k2, ok)
		}
		if other, dup := owner[cons]; dup {
			return violation("C07.I2.shared-key", "consensus address %x is the current key of %s and of %s", cons, other, o.Bech32())
		}
		owner[cons] = o.Bech32()
		// reverse index
		rf, rop := c.App.OperatorKeeper.GetOperatorAddressForChainIDAndConsAddr(ctx, chainID, sdk.ConsAddress(cons))
		if !rf {
			return violation("C07.I3.reverse-missing", "operator %d has current key %x but the consensus address does not resolve to it", i, cons)
		}
		if rop.String() != o.Bech32() {
			return violation("C07.I3.reverse-wrong", "current key %x of operator %d resolves to %s", cons, i, rop)
		}
	}
	if n1 != len(idx2) {
		return violation("C07.I1.forward-indexes", "operator->key has %d entries, chain->operator->key has %d", n1, len(idx2))
	}
	// every key of the pool that resolves must resolve to an operator that set it and has not
	// lost it yet (model registry); two operators never own the same address
	if r.q != nil {
		for ki, k := range m.Keys {
			cons := string(k.ConsAddr())
			owners := 0
			for op := range r.q.owned {
				if r.q.owned[op][cons] {
					owners++
				}
			}
			if owners > 1 {
				return violation("C07.I2.shared-key", "key %d is held (current / replaced / being removed) by %d operators", ki, owners)
			}
			rf, rop := c.App.OperatorKeeper.GetOperatorAddressForChainIDAndConsAddr(ctx, chainID, sdk.ConsAddress(cons))
			if rf {
				ok := false
				for op := range r.q.owned {
					if r.q.owned[op][cons] && m.W.Operators[op].Bech32() == rop.String() {
						ok = true
					}
				}
				if !ok {
					// a key that was set and replaced before it ever became active may leave its reverse
					// entry behind (reported, not judged: the statement speaks of keys that were active)
					m.label("leaked-inactive-reverse-entry")
				}
			}
		}
	}
	// everything in the consensus validator set is resolvable, so it can be slashed and jailed
	for _, val := range c.ValSet.Validators {
		cons := sdk.ConsAddress(val.Address.Bytes())
		if found, _ := c.App.OperatorKeeper.GetOperatorAddressForChainIDAndConsAddr(ctx, chainID, cons); !found {
			return violation("C07.I4.validator-unresolvable", "consensus address %x is in the active validator set but resolves to no operator: it cannot be slashed or jailed", val.Address.Bytes())
		}
		var v interface{}
		func() {
			defer func() {
				if rec := recover(); rec != nil {
					v = "panicked" // arithmetic range of extreme values: C11's subject, not C07's
				}
			}()
			if val := c.App.StakingKeeper.ValidatorByConsAddr(ctx, cons); val != nil {
				v = val
			}
		}()
		if v == nil {
			// the staking interface used by x/slashing and x/evidence
			if found, op := c.App.OperatorKeeper.GetOperatorAddressForChainIDAndConsAddr(ctx, chainID, cons); found {
				if hk, _, _ := c.App.OperatorKeeper.GetOperatorConsKeyForChainID(ctx, op, chainID); hk {
					return violation("C07.I4.validator-unresolvable", "ValidatorByConsAddr(%x) is nil for a member of the active validator set", val.Address.Bytes())
				}
			}
		}
	}
	return nil
}

func (r *registryInv) After(m *Machine, a *Action, o Outcome) error {
	if r.q != nil {
		b := r.q.before
		switch a.Kind {
		case "setKey", "optIn":
			if o.OK && b.Ops[a.Op].Removing {
				return violation("C07.I5.key-set-while-removing", "operator %d is removing its key but %s succeeded", a.Op, a.Kind)
			}
			if o.OK {
				cons := string(m.Keys[a.Key].ConsAddr())
				for op := range r.q.owned {
					if op != a.Op && r.q.owned[op][cons] {
						return violation("C07.I2.shared-key", "operator %d set key %d which operator %d still holds (current, replaced or being removed)", a.Op, a.Key, op)
					}
				}
				if a.Kind == "setKey" && b.Ops[a.Op].HasKey && m.C.ValSet.HasAddress([]byte(b.Ops[a.Op].Key)) && b.Ops[a.Op].Key != cons {
					r.replacedActive++
				}
			}
		}
		if isBlockStep(a) && r.replacedActive > 0 && len(r.q.closedPending) > 0 {
			r.epochAfter = true
		}
	}
	return r.static(m)
}

func (r *registryInv) NonTrivial() (bool, []string) {
	return len(r.opsWithKey) >= 2 && r.replacedActive > 0 && r.epochAfter, []string{fmt.Sprint(r.replacedActive > 1)}
}
