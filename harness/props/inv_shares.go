package props

import (
	"math/big"
	"sort"
	"strings"
)

// sharesInv is the C02 oracle: share bookkeeping is consistent and fair between co-delegators.
type sharesInv struct {
	prev *View
	// clean round trips being tracked: key = stakerID/assetID/operator -> delegated amount x
	rt map[string]*big.Int
	// statistics
	touchedSharedPoolOffRate int
	roundTrips               int
	fairnessChecks           int
}

func (s *sharesInv) Init(m *Machine) error {
	v, err := Observe(m.C)
	if err != nil {
		return err
	}
	s.prev = v
	s.rt = map[string]*big.Int{}
	return s.static(v)
}

func (s *sharesInv) Before(m *Machine, a *Action) {}

func splitKey3(k string) (string, string, string) {
	p := strings.Split(k, "/")
	if len(p) != 3 {
		return "", "", ""
	}
	return p[0], p[1], p[2]
}

// static: the four bookkeeping equalities, for every operator and asset.
func (s *sharesInv) static(v *View) error {
	type agg struct {
		total, self *big.Int
		stakers     []string
	}
	pools := map[string]*agg{} // operator/asset
	get := func(k string) *agg {
		a, ok := pools[k]
		if !ok {
			a = &agg{total: new(big.Int), self: new(big.Int)}
			pools[k] = a
		}
		return a
	}
	for _, k := range sortedKeys(v.Delegations) {
		st, as, op := splitKey3(k)
		d := v.Delegations[k]
		a := get(op + "/" + as)
		a.total.Add(a.total, d.Share)
		if v.Associations[st] == op {
			a.self.Add(a.self, d.Share)
		}
		if d.Share.Sign() > 0 {
			a.stakers = append(a.stakers, st)
		}
	}
	for _, op := range sortedKeys(v.Operator) {
		for _, as := range sortedKeys(v.Operator[op]) {
			r := v.Operator[op][as]
			a := get(op + "/" + as)
			if r.TotalShare.Cmp(a.total) != 0 {
				return violation("C02.I1.total-share", "operator %s asset %s: TotalShare %s != sum of delegators' shares %s (raw 18-decimal)", op, as, r.TotalShare, a.total)
			}
			if r.OperatorShare.Cmp(a.self) != 0 {
				return violation("C02.I2.operator-share", "operator %s asset %s: OperatorShare %s != sum of associated delegators' shares %s", op, as, r.OperatorShare, a.self)
			}
			if r.Amount.Sign() == 0 && r.TotalShare.Sign() != 0 {
				return violation("C02.I4.shares-on-empty-pool", "operator %s asset %s: pool amount 0 but TotalShare %s", op, as, r.TotalShare)
			}
		}
	}
	// delegations to pools without an operator-asset row must be zero
	for k, a := range pools {
		p := strings.SplitN(k, "/", 2)
		if _, ok := v.Operator[p[0]][p[1]]; !ok && a.total.Sign() != 0 {
			return violation("C02.I1.total-share", "pool %s has delegator shares %s but no operator asset row", k, a.total)
		}
	}
	// staker list = exactly the delegators with share > 0, no duplicates
	seenLists := map[string]bool{}
	for _, k := range sortedKeys(v.StakerLists) {
		seenLists[k] = true
		list := append([]string{}, v.StakerLists[k]...)
		sort.Strings(list)
		for i := 1; i < len(list); i++ {
			if list[i] == list[i-1] {
				return violation("C02.I3.staker-list", "pool %s: staker %s listed twice", k, list[i])
			}
		}
		want := []string{}
		if a, ok := pools[k]; ok {
			want = append(want, a.stakers...)
		}
		sort.Strings(want)
		if strings.Join(list, ",") != strings.Join(want, ",") {
			return violation("C02.I3.staker-list", "pool %s: staker list %v, delegators with non-zero share %v", k, list, want)
		}
	}
	for k, a := range pools {
		if len(a.stakers) > 0 && !seenLists[k] {
			return violation("C02.I3.staker-list", "pool %s: delegators with non-zero share %v but no staker list", k, a.stakers)
		}
	}
	return nil
}

func poolOf(v *View, op, asset string) (OperatorRow, bool) {
	r, ok := v.Operator[op][asset]
	return r, ok
}

func (s *sharesInv) After(m *Machine, a *Action, o Outcome) error {
	cur, err := Observe(m.C)
	if err != nil {
		return violation("C02.I0.observe", "%v", err)
	}
	prev := s.prev
	defer func() { s.prev = cur }()
	if err := s.static(cur); err != nil {
		return err
	}
	// which pools did a successful share-moving operation of one staker touch?
	type touch struct{ staker, asset, op string }
	var touches []touch
	switch a.Kind {
	case "delegate", "undelegate":
		if o.OK {
			touches = append(touches, touch{m.StakerID(a.Actor, a.Asset), m.W.AssetIDs[a.Asset], m.W.Operators[a.Op].Bech32()})
		}
	case "nativeDelegate", "nativeUndelegate":
		if o.OK {
			for _, op := range a.Ops {
				touches = append(touches, touch{sim_nativeStakerID(m, a.Actor), nativeAssetID, m.W.Operators[op].Bech32()})
			}
		}
	}
	// anything that is not a plain delegate/undelegate invalidates tracked round trips it touches
	switch a.Kind {
	case "slash", "nstUpdate", "depositNST", "withdrawNST":
		s.rt = map[string]*big.Int{}
	}
	for _, tc := range touches {
		pr, hadPool := poolOf(prev, tc.op, tc.asset)
		cr, _ := poolOf(cur, tc.op, tc.asset)
		// fairness: every other delegator's redeemable value moves by at most one base unit
		if hadPool && pr.TotalShare.Sign() > 0 {
			others := 0
			for k, d := range prev.Delegations {
				st, as, op := splitKey3(k)
				if as != tc.asset || op != tc.op || st == tc.staker || d.Share.Sign() == 0 {
					continue
				}
				others++
				before := redeemable(d.Share, pr.TotalShare, pr.Amount)
				dc, ok := cur.Delegations[k]
				if !ok {
					return violation("C02.I6.fairness", "pool %s/%s: delegation of %s disappeared when %s acted", tc.op, tc.asset, st, tc.staker)
				}
				after := redeemable(dc.Share, cr.TotalShare, cr.Amount)
				diff := new(big.Int).Sub(after, before)
				if diff.CmpAbs(big.NewInt(1)) > 0 {
					return violation("C02.I6.fairness", "pool %s/%s: %s by %s changed the redeemable value of %s from %s to %s", tc.op, tc.asset, a.Kind, tc.staker, st, before, after)
				}
				s.fairnessChecks++
			}
			// rate != 1 <=> amount*10^18 != totalShare
			if others > 0 && new(big.Int).Mul(pr.Amount, pow10(18)).Cmp(pr.TotalShare) != 0 {
				s.touchedSharedPoolOffRate++
			}
		}
	}
	// round trips are only judged when nobody else moved shares of that pool in between
	for _, tc := range touches {
		for k := range s.rt {
			st, as, op := splitKey3(k)
			if as == tc.asset && op == tc.op && st != tc.staker {
				delete(s.rt, k)
			}
		}
	}
	// round trip
	if len(touches) == 1 && (a.Kind == "delegate" || a.Kind == "undelegate") {
		tc := touches[0]
		key := tc.staker + "/" + tc.asset + "/" + tc.op
		if a.Kind == "delegate" {
			if d, ok := prev.Delegations[key]; !ok || d.Share.Sign() == 0 {
				s.rt[key] = amt(a.Amount)
			} else {
				delete(s.rt, key)
			}
		} else {
			if x, ok := s.rt[key]; ok {
				delete(s.rt, key)
				if d := cur.Delegations[key]; d.Share != nil && d.Share.Sign() == 0 {
					// undelegated everything: find the record this call created
					var rec *UndRow
					prevKeys := map[string]bool{}
					for _, u := range prev.Undelegations {
						prevKeys[u.Key] = true
					}
					for i, u := range cur.Undelegations {
						if !prevKeys[u.Key] && u.Staker == tc.staker && u.Asset == tc.asset && u.Operator == tc.op {
							rec = &cur.Undelegations[i]
						}
					}
					if rec != nil {
						lo := new(big.Int).Sub(x, big.NewInt(1))
						if rec.Amount.Cmp(lo) < 0 || rec.Amount.Cmp(x) > 0 {
							return violation("C02.I5.round-trip", "staker %s delegated %s to %s/%s and, with no slash in between, undelegated everything for %s", tc.staker, x, tc.op, tc.asset, rec.Amount)
						}
						s.roundTrips++
					}
				}
			}
		}
	} else if len(touches) > 0 {
		for _, tc := range touches {
			delete(s.rt, tc.staker+"/"+tc.asset+"/"+tc.op)
		}
	}
	return nil
}

func (s *sharesInv) NonTrivial() bool { return s.touchedSharedPoolOffRate > 0 }
