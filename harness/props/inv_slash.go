package props

import (
	"fmt"
	"math/big"
	"strings"

	sdk "github.com/cosmos/cosmos-sdk/types"
)

// slashInv is the C04 oracle. It snapshots the ledger at BeginBlock position right before a
// slash and compares the effect with an exact-rational model.
type slashInv struct {
	pre       *View
	preSnap   map[string][]kvSnap
	opFound   bool
	opAddr    string
	idExisted bool
	// statistics
	nonZero, atRisk, notAtRisk, replays, shrunk int
	both                                        bool
}

type kvSnap struct{ k, v string }

func (s *slashInv) Init(m *Machine) error        { return nil }
func (s *slashInv) Before(m *Machine, a *Action) {}

// PreSlash is called by the machine after the block advance and before the slash call.
func (s *slashInv) PreSlash(m *Machine, a *Action, infrH int64) {
	s.pre, _ = Observe(m.C)
	ctx := m.C.Ctx()
	found, op := m.C.App.OperatorKeeper.GetOperatorAddressForChainIDAndConsAddr(ctx, m.chainIDNoRev(), m.Keys[a.Key].ConsAddr())
	s.opFound, s.opAddr = found, op.String()
	s.idExisted = false
	if found {
		if info, err := m.C.App.OperatorKeeper.GetOperatorSlashInfo(ctx, m.W.AvsAddr, s.opAddr, slashIDFor(a.Infr, infrH)); err == nil && info != nil {
			s.idExisted = true
		}
	}
	s.preSnap = map[string][]kvSnap{}
	for _, st := range []string{"assets", "delegation", "operator", "dogfood"} {
		for _, kv := range m.C.Dump(ctx, st) {
			s.preSnap[st] = append(s.preSnap[st], kvSnap{string(kv.Key), string(kv.Value)})
		}
	}
}

func priceOf(m *Machine, assetID string) (*big.Int, int, int, bool) {
	if assetID == nativeAssetID {
		return big.NewInt(1), 18, 0, true // fixed default price 1, 18 decimals
	}
	for i, id := range m.W.AssetIDs {
		if id == assetID {
			a := m.W.Cfg.Assets[i]
			p, _ := new(big.Int).SetString(a.Price, 10)
			return p, int(a.Decimals), int(a.PriceDecimal), true
		}
	}
	return nil, 0, 0, false
}

func ratFromDec(s string) *big.Rat {
	r, _ := new(big.Rat).SetString(s)
	return r
}

func floorRat(r *big.Rat) *big.Int {
	return new(big.Int).Quo(r.Num(), r.Denom())
}

func (s *slashInv) After(m *Machine, a *Action, o Outcome) error {
	if a.Kind != "slash" || s.pre == nil {
		return nil
	}
	pre := s.pre
	s.pre = nil
	cur, err := Observe(m.C)
	if err != nil {
		return violation("C04.I0.observe", "%v", err)
	}
	infrH := m.C.Height - a.Back
	if infrH < 0 {
		infrH = 0
	}
	diff := s.diffStores(m)
	if !s.opFound {
		if len(diff) > 0 {
			return violation("C04.I5.unknown-address-changed-state", "slash of a consensus address that resolves to no operator changed %v", diff)
		}
		return nil
	}
	if s.idExisted {
		s.replays++
		if len(diff) > 0 {
			return violation("C04.I6.replayed-slash-has-effect", "slash id %s was already executed for operator %s, presenting it again changed %v", slashIDFor(a.Infr, infrH), s.opAddr, diff)
		}
		return nil
	}
	op := s.opAddr
	hasNative := false
	if r, ok := pre.Operator[op][nativeAssetID]; ok && (r.Amount.Sign() > 0 || r.Pending.Sign() > 0 || r.TotalShare.Sign() > 0) {
		hasNative = true
	}
	_, nativeRow := pre.Operator[op][nativeAssetID]
	power := big.NewRat(a.Power, 1)
	factor := ratFromDec(a.Factor)
	slashUSD := new(big.Rat).Mul(power, factor)
	// V = USD value of pools + unbonding stake; per asset the implementation truncates at 18 decimals
	V := new(big.Rat)
	nAssets := 0
	for asset, r := range pre.Operator[op] {
		p, dec, pdec, ok := priceOf(m, asset)
		if !ok {
			continue
		}
		nAssets++
		amount := new(big.Int).Add(r.Amount, r.Pending)
		v := new(big.Rat).SetFrac(new(big.Int).Mul(amount, p), pow10(dec+pdec))
		V.Add(V, v)
	}
	ulp := big.NewRat(1, 1)
	ulp.SetFrac(big.NewInt(1), pow10(18))
	one := big.NewRat(1, 1)
	minRat := func(a, b *big.Rat) *big.Rat {
		if a.Cmp(b) < 0 {
			return a
		}
		return b
	}
	if !o.OK {
		if nativeRow {
			// listed known finding candidate: operators holding a native-token pool cannot be slashed
			return violation("C04.I0.slash-not-executed.native-pool", "valid slash of operator %s (power %d factor %s height %d) was not executed; the operator has a native-token pool (hasNative=%v)", op, a.Power, a.Factor, infrH, hasNative)
		}
		return violation("C04.I0.slash-not-executed", "valid slash of operator %s (power %d factor %s height %d) was not executed: %s", op, a.Power, a.Factor, infrH, o.Note)
	}
	info, ierr := m.C.App.OperatorKeeper.GetOperatorSlashInfo(m.C.Ctx(), m.W.AvsAddr, op, slashIDFor(a.Infr, infrH))
	if ierr != nil || info == nil || info.ExecutionInfo == nil {
		return violation("C04.I4.no-execution-record", "executed slash has no stored execution info: %v", ierr)
	}
	phat := new(big.Rat).SetFrac(info.ExecutionInfo.SlashProportion.BigInt(), pow10(18))
	// expected proportion interval
	var lo, hi *big.Rat
	errV := new(big.Rat).Mul(ulp, big.NewRat(int64(nAssets+1), 1))
	if V.Sign() == 0 || V.Cmp(errV) <= 0 {
		lo, hi = big.NewRat(0, 1), big.NewRat(1, 1)
		if slashUSD.Sign() == 0 {
			hi = big.NewRat(0, 1)
		}
	} else {
		qlo := new(big.Rat).Quo(slashUSD, new(big.Rat).Add(V, errV))
		qhi := new(big.Rat).Quo(slashUSD, new(big.Rat).Sub(V, errV))
		lo = new(big.Rat).Sub(minRat(one, qlo), ulp)
		hi = new(big.Rat).Add(minRat(one, qhi), ulp)
	}
	if phat.Cmp(lo) < 0 || phat.Cmp(hi) > 0 || phat.Cmp(one) > 0 || phat.Sign() < 0 {
		return violation("C04.I1.proportion", "operator %s: power %d x factor %s over value %s: recorded proportion %s outside [%s, %s]", op, a.Power, a.Factor, V.FloatString(18), phat.FloatString(18), lo.FloatString(18), hi.FloatString(18))
	}
	if phat.Sign() > 0 {
		s.nonZero++
	}
	if phat.Cmp(one) == 0 && slashUSD.Cmp(V) > 0 {
		s.shrunk++
	}
	// ---- pools: every pool of the operator loses exactly floor(phat * amount)
	recordedPool := map[string]*big.Int{}
	for _, p := range info.ExecutionInfo.SlashAssetsPool {
		if _, dup := recordedPool[p.AssetID]; dup {
			return violation("C04.I4.execution-record", "asset %s recorded twice", p.AssetID)
		}
		recordedPool[p.AssetID] = p.Amount.BigInt()
	}
	for asset, r := range pre.Operator[op] {
		want := floorRat(new(big.Rat).Mul(phat, new(big.Rat).SetInt(r.Amount)))
		after := cur.Operator[op][asset]
		if after.Amount == nil {
			return violation("C04.I2.pool", "pool %s/%s disappeared", op, asset)
		}
		got := new(big.Int).Sub(r.Amount, after.Amount)
		if got.Cmp(want) != 0 {
			return violation("C04.I2.pool", "pool %s/%s of %s: lost %s, proportion %s demands %s", op, asset, r.Amount, got, phat.FloatString(18), want)
		}
		rec, ok := recordedPool[asset]
		if !ok || rec.Cmp(got) != 0 {
			return violation("C04.I4.execution-record", "pool %s/%s lost %s, execution record says %v", op, asset, got, rec)
		}
		if after.Pending.Cmp(r.Pending) != 0 {
			return violation("C04.I3.nothing-else", "pool %s/%s: pending figure changed %s -> %s", op, asset, r.Pending, after.Pending)
		}
	}
	// ---- pending undelegations of that operator
	type recSum struct{ n int }
	recordedUnd := map[string]*big.Int{} // staker|asset -> total recorded
	for _, u := range info.ExecutionInfo.SlashUndelegations {
		k := u.StakerID + "|" + u.AssetID
		if _, ok := recordedUnd[k]; !ok {
			recordedUnd[k] = new(big.Int)
		}
		recordedUnd[k].Add(recordedUnd[k], u.Amount.BigInt())
	}
	actualUnd := map[string]*big.Int{}
	curRec := map[string]UndRow{}
	for _, u := range cur.Undelegations {
		curRec[u.Key] = u
	}
	sawRisk, sawSafe := false, false
	for _, u := range pre.Undelegations {
		cu, ok := curRec[u.Key]
		if !ok {
			return violation("C04.I3.nothing-else", "undelegation %q disappeared during a slash", u.Key)
		}
		lost := new(big.Int).Sub(u.Actual, cu.Actual)
		atRisk := u.Operator == op && int64(u.Start) >= infrH && infrH < m.C.Height
		if !atRisk {
			if lost.Sign() != 0 {
				return violation("C04.I3.not-at-risk-touched", "undelegation %q (operator %s, started at %d; infraction height %d, operator slashed %s) lost %s", u.Key, u.Operator, u.Start, infrH, op, lost)
			}
			if u.Operator == op {
				sawSafe = true
			}
			continue
		}
		sawRisk = true
		want := floorRat(new(big.Rat).Mul(phat, new(big.Rat).SetInt(u.Amount)))
		if want.Cmp(u.Actual) > 0 {
			want = new(big.Int).Set(u.Actual)
		}
		if lost.Cmp(want) != 0 {
			return violation("C04.I2.undelegation", "undelegation %q (amount %s, still owed %s): lost %s, proportion %s on the original amount demands %s", u.Key, u.Amount, u.Actual, lost, phat.FloatString(18), want)
		}
		k := u.Staker + "|" + u.Asset
		if _, ok := actualUnd[k]; !ok {
			actualUnd[k] = new(big.Int)
		}
		actualUnd[k].Add(actualUnd[k], lost)
		if cu.Amount.Cmp(u.Amount) != 0 || cu.Complete != u.Complete {
			return violation("C04.I3.nothing-else", "undelegation %q: amount/completion changed", u.Key)
		}
	}
	for k, want := range actualUnd {
		got := recordedUnd[k]
		if got == nil {
			got = new(big.Int)
		}
		if got.Cmp(want) != 0 {
			return violation("C04.I4.execution-record", "undelegations of %s lost %s, execution record says %s", k, want, got)
		}
	}
	for k, got := range recordedUnd {
		if _, ok := actualUnd[k]; !ok && got.Sign() != 0 {
			return violation("C04.I4.execution-record", "execution record lists a reduction of %s for %s that did not happen", got, k)
		}
	}
	if sawRisk {
		s.atRisk++
	}
	if sawSafe {
		s.notAtRisk++
	}
	if sawRisk && sawSafe && phat.Sign() > 0 {
		s.both = true
	}
	// ---- nothing else: no other operator's pool, no staker balance changes; no figure increases
	for o2, am := range pre.Operator {
		if o2 == op {
			continue
		}
		for asset, r := range am {
			if c2 := cur.Operator[o2][asset]; c2.Amount == nil || c2.Amount.Cmp(r.Amount) != 0 || c2.TotalShare.Cmp(r.TotalShare) != 0 {
				return violation("C04.I3.nothing-else", "pool %s/%s of another operator changed during the slash of %s", o2, asset, op)
			}
		}
	}
	for st, am := range pre.Staker {
		for asset, r := range am {
			c2 := cur.Staker[st][asset]
			if c2.Withdrawable == nil || c2.Withdrawable.Cmp(r.Withdrawable) != 0 || c2.Pending.Cmp(r.Pending) != 0 || c2.Total.Cmp(r.Total) != 0 {
				return violation("C04.I3.nothing-else", "staker row %s/%s changed during a slash: %v -> %v", st, asset, r, c2)
			}
		}
	}
	// raw diff: only the operator's asset rows, its delegators' share rows (reset when a pool hits
	// zero), the at-risk undelegation records, the slash record and the staker lists may change
	for _, d := range diff {
		ok := strings.Contains(d, op) || strings.HasPrefix(d, "operator/")
		if !ok {
			return violation("C04.I3.nothing-else", "slash of %s changed an unrelated key: %s", op, d)
		}
	}
	return nil
}

// diffStores lists "store/key" of every key that differs from the pre-slash snapshot.
func (s *slashInv) diffStores(m *Machine) []string {
	var out []string
	ctx := m.C.Ctx()
	for _, st := range []string{"assets", "delegation", "operator", "dogfood"} {
		now := map[string]string{}
		for _, kv := range m.C.Dump(ctx, st) {
			now[string(kv.Key)] = string(kv.Value)
		}
		before := map[string]string{}
		for _, kv := range s.preSnap[st] {
			before[kv.k] = kv.v
			if v, ok := now[kv.k]; !ok || v != kv.v {
				out = append(out, fmt.Sprintf("%s/%q", st, kv.k))
			}
		}
		for k := range now {
			if _, ok := before[k]; !ok {
				out = append(out, fmt.Sprintf("%s/%q", st, k))
			}
		}
	}
	return out
}

func (s *slashInv) NonTrivial() bool { return s.both }

var _ = sdk.AccAddress{}
