package props

import (
	"bytes"
	"fmt"
	"math/big"
	"sort"

	abci "github.com/cometbft/cometbft/abci/types"
	cryptocodec "github.com/cosmos/cosmos-sdk/crypto/codec"
	sdk "github.com/cosmos/cosmos-sdk/types"
)

// valsetInv is the C06 oracle: the validator updates handed to the consensus engine at the
// end of the block that closes a dogfood epoch produce exactly the eligible top set.
type valsetInv struct {
	epochBefore  int64
	closingBlock bool             // the block in progress is one whose BeginBlock closed a dogfood epoch
	prevSet      map[string]int64 // consensus address -> power, before the EndBlock being judged
	// statistics
	sawAdd, sawRemove, sawChange, sawTieAtCut, sawOverMax bool
	epochEndsJudged                                       int
}

func (v *valsetInv) Init(m *Machine) error {
	v.epochBefore = observeDogfood(m).Epoch
	v.prevSet = mirrorMap(m)
	return nil
}

func mirrorMap(m *Machine) map[string]int64 {
	out := map[string]int64{}
	for _, val := range m.C.ValSet.Validators {
		out[string(val.Address.Bytes())] = val.VotingPower
	}
	return out
}

func (v *valsetInv) Before(m *Machine, a *Action) {
	v.epochBefore = observeDogfood(m).Epoch
	v.prevSet = mirrorMap(m)
}

type eligible struct {
	op    sdk.AccAddress
	cons  string
	power int64
}

// MidBlock: EndBlock and Commit of the block have run, the next BeginBlock has not.
func (v *valsetInv) MidBlock(m *Machine) error {
	c := m.C
	ctx := c.CommittedCtx()
	ups := c.LastEndBlock.ValidatorUpdates
	if c.ValSetErr != nil {
		if isEmptySetErr(c.ValSetErr) {
			return nil // out of scope (Machine.Step ends the case)
		}
		return violation("C06.I2.update-rejected", "the consensus engine's validator set rejects the update list %v: %v", fmtUpdates(ups), c.ValSetErr)
	}
	// stored list of updates = what consensus was told
	stored := c.App.StakingKeeper.GetValidatorUpdates(ctx)
	if fmtUpdates(stored) != fmtUpdates(ups) {
		return violation("C06.I4.stored-updates", "returned updates %s, stored updates %s", fmtUpdates(ups), fmtUpdates(stored))
	}
	if !v.closingBlock {
		if len(ups) != 0 {
			return violation("C06.I5.updates-outside-epoch-end", "block %d does not close a dogfood epoch but returned validator updates %s", c.Height, fmtUpdates(ups))
		}
		return v.agreement(m, ctx)
	}
	v.epochEndsJudged++
	// no key twice
	seen := map[string]bool{}
	for _, u := range ups {
		k := u.PubKey.String()
		if seen[k] {
			return violation("C06.I2.duplicate-key", "update list contains a key twice: %s", fmtUpdates(ups))
		}
		seen[k] = true
	}
	// ---- the eligible set, computed independently from the committed state
	chainID := m.chainIDNoRev()
	var el []eligible
	for _, o := range m.W.Operators {
		found, key, _ := c.App.OperatorKeeper.GetOperatorConsKeyForChainID(ctx, o.Acc(), chainID)
		if !found {
			continue
		}
		if !c.App.OperatorKeeper.IsActive(ctx, o.Acc(), m.W.AvsAddr) { // opted in, not opted out, not jailed
			continue
		}
		if c.App.OperatorKeeper.IsOperatorRemovingKeyFromChainID(ctx, o.Acc(), chainID) {
			continue
		}
		val, err := c.App.OperatorKeeper.GetOperatorOptedUSDValue(ctx, m.W.AvsAddr, o.Bech32())
		if err != nil {
			continue
		}
		// whole-number part of the active USD value (18-decimal fixed point)
		p := new(big.Int).Quo(val.ActiveUSDValue.BigInt(), pow10(18))
		if !p.IsInt64() || p.Int64() < 1 {
			continue
		}
		el = append(el, eligible{op: o.Acc(), cons: string(key.ToConsAddr()), power: p.Int64()})
	}
	sort.Slice(el, func(i, j int) bool {
		if el[i].power != el[j].power {
			return el[i].power > el[j].power
		}
		return bytes.Compare(el[i].op, el[j].op) < 0
	})
	maxVals := int(c.App.StakingKeeper.GetMaxValidators(ctx))
	if len(el) > maxVals {
		v.sawOverMax = true
		if el[maxVals-1].power == el[maxVals].power {
			v.sawTieAtCut = true
		}
		el = el[:maxVals]
	}
	want := map[string]int64{}
	for _, e := range el {
		want[e.cons] = e.power
	}
	got := mirrorMap(m) // = apply(previous set, updates), done by the driver with CometBFT's own code
	if fmtSet(want) != fmtSet(got) {
		return violation("C06.I1.wrong-set", "epoch end at height %d: previous set %s + updates %s = %s, eligible top set is %s", c.Height, fmtSet(v.prevSet), fmtUpdates(ups), fmtSet(got), fmtSet(want))
	}
	for _, u := range ups {
		pk, err := cryptocodec.FromTmProtoPublicKey(u.PubKey)
		if err != nil {
			return violation("C06.I2.bad-key", "%v", err)
		}
		addr := string(sdk.ConsAddress(pk.Address()))
		old, had := v.prevSet[addr]
		switch {
		case u.Power == 0 && !had:
			return violation("C06.I2.unknown-removal", "update removes unknown key %x", addr)
		case u.Power == 0:
			v.sawRemove = true
		case !had:
			v.sawAdd = true
		case old != u.Power:
			v.sawChange = true
		}
	}
	return v.agreement(m, ctx)
}

// agreement: stored validator set, stored total power and what consensus was told agree.
func (v *valsetInv) agreement(m *Machine, ctx sdk.Context) error {
	c := m.C
	stored := map[string]int64{}
	total := int64(0)
	for _, val := range c.App.StakingKeeper.GetAllExocoreValidators(ctx) {
		stored[string(val.Address)] = val.Power
	}
	mirror := mirrorMap(m)
	for _, p := range mirror {
		total += p
	}
	if fmtSet(stored) != fmtSet(mirror) {
		return violation("C06.I3.stored-set", "stored validator set %s, consensus engine's set %s", fmtSet(stored), fmtSet(mirror))
	}
	if ltp := c.App.StakingKeeper.GetLastTotalPower(ctx); !ltp.IsInt64() || ltp.Int64() != total {
		return violation("C06.I3.total-power", "stored total power %s, consensus engine's set sums to %d", ltp, total)
	}
	return nil
}

func (v *valsetInv) After(m *Machine, a *Action, o Outcome) error {
	if isBlockStep(a) {
		// the BeginBlock that just ran: did it close a dogfood epoch? then the block now in
		// progress is a closing block
		v.closingBlock = observeDogfood(m).Epoch > v.epochBefore
	}
	return nil
}

func (v *valsetInv) NonTrivial() bool {
	return (v.sawAdd && v.sawRemove && v.sawChange) || v.sawTieAtCut
}

func isEmptySetErr(err error) bool {
	return err != nil && bytes.Contains([]byte(err.Error()), []byte("empty set"))
}

func fmtSet(s map[string]int64) string {
	keys := make([]string, 0, len(s))
	for k := range s {
		keys = append(keys, k)
	}
	sort.Strings(keys)
	out := "{"
	for _, k := range keys {
		out += fmt.Sprintf("%x:%d ", k[:4], s[k])
	}
	return out + "}"
}

func fmtUpdates(ups []abci.ValidatorUpdate) string {
	out := "["
	for _, u := range ups {
		addr := ""
		if pk, err := cryptocodec.FromTmProtoPublicKey(u.PubKey); err == nil {
			addr = fmt.Sprintf("%x", pk.Address().Bytes()[:4])
		}
		out += fmt.Sprintf("%s:%d ", addr, u.Power)
	}
	return out + "]"
}
