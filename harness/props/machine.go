package props

import (
	"encoding/json"
	"fmt"
	"github.com/ExocoreNetwork/exocore/utils"
	abci "github.com/cometbft/cometbft/abci/types"
	"github.com/cosmos/cosmos-sdk/codec"
	banktypes "github.com/cosmos/cosmos-sdk/x/bank/types"
	"math/big"
	"os"
	"sort"
	"strings"
	"time"

	sdkmath "cosmossdk.io/math"
	"exoverif/sim"

	assetstypes "github.com/ExocoreNetwork/exocore/x/assets/types"
	avstypes "github.com/ExocoreNetwork/exocore/x/avs/types"
	delegationtypes "github.com/ExocoreNetwork/exocore/x/delegation/types"
	operatortypes "github.com/ExocoreNetwork/exocore/x/operator/types"
	sdk "github.com/cosmos/cosmos-sdk/types"
	slashingtypes "github.com/cosmos/cosmos-sdk/x/slashing/types"
	stakingtypes "github.com/cosmos/cosmos-sdk/x/staking/types"
	"github.com/ethereum/go-ethereum/common"
)

// Action is one serialisable step of a world history. A case is Config + []Action; replaying
// the list needs no random source.
type Action struct {
	Kind    string   `json:"k"`
	Actor   int      `json:"actor,omitempty"` // staker actor: 0..NumStakers-1 = stakers, then operators' own addresses
	Op      int      `json:"op,omitempty"`
	Asset   int      `json:"asset,omitempty"`
	Amount  string   `json:"amt,omitempty"`
	Neg     bool     `json:"neg,omitempty"`
	Dt      int      `json:"dt,omitempty"` // seconds
	Factor  string   `json:"factor,omitempty"`
	Back    int64    `json:"back,omitempty"` // infraction height = current height - Back
	Power   int64    `json:"power,omitempty"`
	Infr    int      `json:"infr,omitempty"`
	Caller  int      `json:"caller,omitempty"` // 0 gateway, 1 unrelated account
	Key     int      `json:"key,omitempty"`    // index into the consensus key pool
	Ops     []int    `json:"ops,omitempty"`
	Amounts []string `json:"amts,omitempty"`
	Lz      uint64   `json:"lz,omitempty"`
	Nonce   uint64   `json:"nonce,omitempty"`
	N       int      `json:"n,omitempty"`
	Hostile bool     `json:"hostile,omitempty"` // drawn in a hostile/extreme variant (statistics only)
	// oracle price submission ("price")
	Feeder uint64   `json:"feeder,omitempty"`
	Based  uint64   `json:"based,omitempty"`
	PNonce int32    `json:"pnonce,omitempty"`
	Dets   []string `json:"dets,omitempty"`
	Prices []string `json:"prices,omitempty"`
	Ts     string   `json:"ts,omitempty"`
	Dec    int32    `json:"dec,omitempty"`
	Src    uint64   `json:"src,omitempty"`
	Sig    int      `json:"sig,omitempty"`
	Mode   int      `json:"mode,omitempty"`  // 0 DeliverTx, 1 CheckTx, 2 ReCheckTx
	Pad    int      `json:"pad,omitempty"`   // extra bytes in the source description (size limit)
	Twice  bool     `json:"twice,omitempty"` // the same message two times in one transaction
	// Co > 0: the transaction carries a second message in the name of validator key Co-1 (nonce
	// CoNonce, otherwise the same report) whose signature is made with the first signer's key
	Co      int   `json:"co,omitempty"`
	CoNonce int32 `json:"cononce,omitempty"`
	CoOwn   bool  `json:"coown,omitempty"` // the second validator signs with its own key (an honest two-signer transaction)
	// AVS actions (kinds "avs*")
	Avs *AvsAct `json:"avs,omitempty"`
	// Ethereum transaction (kind "ethTx")
	Eth *EthAct `json:"eth,omitempty"`
	// authorization probes (C10): Signer > 0 makes identity Signer-1 sign a message that names
	// somebody else as its signer; Forge selects how (sim.ForgeMode). Ident is the identity an
	// action is about when it is not an operator/staker index; Module names a parameter set.
	Signer int    `json:"signer,omitempty"`
	Forge  int    `json:"forge,omitempty"`
	Ident  int    `json:"ident,omitempty"`
	Module string `json:"module,omitempty"`
	// raw precompile call (kind "rawCall"): Module names the precompile, Data is the calldata (hex)
	Data string `json:"data,omitempty"`
	// nextBlock: consensus keys (pool indexes) whose validators did not sign the previous block
	Absent []int `json:"absent,omitempty"`
	// Restart (nextBlock): the node is restarted after the commit of the block that ends
	Restart bool `json:"restart,omitempty"`
	// Sim: the action's transaction is not delivered but simulated on the node that records the
	// history (tx simulation / gas estimation endpoint); it is part of no block
	Sim bool `json:"sim,omitempty"`
}

func (a Action) String() string {
	b, _ := json.Marshal(a)
	return string(b)
}

// Outcome is what the chain itself reported for an action.
type Outcome struct {
	OK       bool // the operation took effect according to the chain's own answer
	Included bool // the carrying transaction was included (code 0)
	Note     string
	// Admitted: the transaction passed the admission (ante) checks; only meaningful for "price"
	Admitted           bool
	Priority           int64
	GasWanted, GasUsed int64
	// ExtHoldRefused: an "extHold" release of a hold the harness had placed was refused
	ExtHoldRefused bool
}

// Violation is a failed invariant with a stable id.
type Violation struct {
	ID  string
	Msg string
}

func (v *Violation) Error() string { return v.ID + ": " + v.Msg }

func violation(id, format string, args ...interface{}) *Violation {
	return &Violation{ID: id, Msg: fmt.Sprintf(format, args...)}
}

// Invariant is a property-specific oracle evaluated around every step.
type Invariant interface {
	Init(m *Machine) error
	Before(m *Machine, a *Action)
	After(m *Machine, a *Action, o Outcome) error
}

// Machine is the shared restaking world machine over the real application.
type Machine struct {
	W      *sim.World
	C      *sim.Chain
	Log    []Action
	Outs   []Outcome
	Inv    []Invariant
	Labels map[string]int
	Keys   []sim.ConsKey // consensus key pool: 0..NumValidators-1 are the genesis keys
	// NST validator pubkeys deposited per actor (so that withdrawals can name one)
	NstKeys map[int][][]byte
	nstSeq  int
	// native bank balance of every actor before the current step
	nativeBefore []*big.Int
	lastTx       []byte // bytes of the last price transaction built
	bls          []sim.BLSKey
	avsCommit    map[string]avsCommitRec // operator/task address/id -> what phase one committed to
	lastEth      *ethBuilt               // the last Ethereum transaction sent by an "ethTx" action
	blockGas     uint64                  // gas limits of the Ethereum transactions included in the block in progress
	rawCapBits   int                     // cap on integer arguments of raw precompile calls (listed overflow findings)
	ExtHolds     map[string]int          // record key -> holds placed by the harness as a second AVS and not yet released
	ExtPlaced    int
	ExtReleased  int
	restartNext  bool  // restart the node after the commit of the current block
	Restarts     int   // restarts performed
	absentNext   []int // consensus keys missing from the last commit of the next block
	downSticky   []int // generator memory: the keys that were down in the previous downtime block
}

type avsCommitRec struct {
	SigNum  int64
	SigID   uint64
	SigMode int
	BlsKey  int
}

const keyPoolExtra = 6

var debugNotes = os.Getenv("VERIF_DEBUG_NOTES")

// NewMachine builds world and chain and enters block 1.
func NewMachine(cfg sim.Config, invs ...Invariant) (*Machine, error) {
	w, err := sim.BuildWorld(cfg)
	if err != nil {
		return nil, err
	}
	c, err := sim.NewChain(w)
	if err != nil {
		return nil, err
	}
	m := &Machine{W: w, C: c, Inv: invs, Labels: map[string]int{}, NstKeys: map[int][][]byte{}}
	m.Keys = append(m.Keys, w.ConsKeys...)
	for i := 0; i < keyPoolExtra; i++ {
		m.Keys = append(m.Keys, sim.NewConsKey(cfg.Seed, "extracons", i))
	}
	c.BeginBlock(5*time.Second, nil)
	if c.Halted != nil {
		return nil, c.Halted
	}
	for _, inv := range invs {
		if err := inv.Init(m); err != nil {
			return nil, err
		}
	}
	return m, nil
}

func (m *Machine) NumActors() int { return len(m.W.Stakers) + len(m.W.Operators) }

func (m *Machine) ActorKey(i int) sim.AccountKey {
	if i < len(m.W.Stakers) {
		return m.W.Stakers[i]
	}
	return m.W.Operators[i-len(m.W.Stakers)]
}

func (m *Machine) ActorAddr(i int) common.Address { return m.ActorKey(i).Addr }

func (m *Machine) StakerID(actor, asset int) string {
	return sim.StakerID(m.ActorAddr(actor), m.W.Cfg.Assets[asset].LzID)
}

func (m *Machine) OpAcc(i int) sdk.AccAddress { return m.W.Operators[i].Acc() }

// caller: 0 = the gateway, 1 = the unrelated account, k >= 2 = identity k-2 of the pool.
func (m *Machine) caller(i int) sim.AccountKey {
	switch {
	case i == 1:
		return m.W.Other
	case i >= 2:
		return m.Ident(i - 2)
	}
	return m.W.Gateway
}

func simStakerID(addr common.Address, lz uint64) string { return sim.StakerID(addr, lz) }

func amt(s string) *big.Int {
	v, ok := new(big.Int).SetString(s, 10)
	if !ok {
		return big.NewInt(0)
	}
	return v
}

func (m *Machine) label(l string) { m.Labels[l]++ }

// Step runs one action with all invariants around it.
func (m *Machine) Step(a Action) error {
	m.nativeBefore = m.nativeBefore[:0]
	for i := 0; i < m.NumActors(); i++ {
		m.nativeBefore = append(m.nativeBefore, NativeBalance(m.C, m.ActorKey(i).Acc()))
	}
	for _, inv := range m.Inv {
		inv.Before(m, &a)
	}
	if a.Sim && simulatable(a.Kind) {
		m.C.SimOnly = true
	}
	o, err := m.Apply(&a)
	m.C.SimOnly = false
	m.Log = append(m.Log, a)
	m.Outs = append(m.Outs, o)
	if err != nil {
		return err
	}
	if m.C.Halted != nil {
		return m.C.Halted
	}
	if a.Sim && simulatable(a.Kind) {
		m.label("simulated-not-delivered:" + a.Kind)
	}
	if (a.Kind == "optIn" || a.Kind == "setKey") && a.Pad > 0 && o.OK && !a.Sim {
		// (the key models of C06, C07 and C16 identify keys by their index in the pool: an accepted
		// malformed key would silently be booked as that pool key)
		return violation("C07.I5.malformed-key-accepted", "%s carried a malformed or unsupported consensus key and was accepted", a.String())
	}
	if o.OK {
		m.label(a.Kind + ":ok")
	} else {
		m.label(a.Kind + ":fail")
		if strings.HasPrefix(a.Kind, "avs") || strings.HasPrefix(a.Kind, "reg") || a.Kind == "updToken" {
			n := o.Note
			if i := strings.Index(n, "message index: 0: "); i >= 0 {
				n = n[i+18:]
			}
			if len(n) > 70 {
				n = n[:70]
			}
			m.label("why:" + a.Kind + ":" + n)
		}
		if debugNotes != "" && strings.Contains(o.Note, debugNotes) {
			fmt.Printf("DEBUGNOTE %s -> %.2800s\n", a.String(), o.Note)
		}
	}
	for _, inv := range m.Inv {
		if err := inv.After(m, &a, o); err != nil {
			return err
		}
	}
	if m.C.ValSetErr != nil {
		// the consensus engine would have rejected this update list (C06/C11 judge that); no
		// other property can say anything about what follows
		return &sim.Halt{Phase: "EndBlock(valset)", Height: m.C.Height, Value: "validator set update rejected (out of scope here): " + m.C.ValSetErr.Error()}
	}
	return nil
}

func fromCall(r sim.CallResult, err error) (Outcome, error) {
	if err != nil {
		return Outcome{}, err
	}
	note := ""
	if !r.Included {
		note = fmt.Sprintf("code=%d %s", r.Code, r.Log)
	} else if r.VMError != "" {
		note = "vm: " + r.VMError
	}
	return Outcome{OK: r.OK(), Included: r.Included, Note: note}, nil
}

// Apply executes an action against the chain. An error means the harness itself could not
// perform the step (never a property violation).
func (m *Machine) Apply(a *Action) (Outcome, error) {
	c := m.C
	switch a.Kind {
	case "nextBlock":
		dt := a.Dt
		if dt <= 0 {
			dt = 1
		}
		m.absentNext = a.Absent
		m.restartNext = a.Restart
		if err := m.nextBlock(dt); err != nil {
			return Outcome{}, err
		}
		return Outcome{OK: true, Included: true}, nil
	case "depositLST":
		return fromCall(c.DepositLST(m.caller(a.Caller), a.Asset, m.ActorAddr(a.Actor), amt(a.Amount)))
	case "withdrawLST":
		return fromCall(c.WithdrawLST(m.caller(a.Caller), a.Asset, m.ActorAddr(a.Actor), amt(a.Amount)))
	case "delegate":
		if a.Nonce == 0 {
			a.Nonce = c.NextLzNonce(m.W.Cfg.Assets[a.Asset].LzID)
		}
		return fromCall(c.Delegate(m.caller(a.Caller), a.Asset, m.ActorAddr(a.Actor), m.OpAcc(a.Op), amt(a.Amount), a.Nonce))
	case "undelegate":
		if a.Nonce == 0 {
			a.Nonce = c.NextLzNonce(m.W.Cfg.Assets[a.Asset].LzID)
		}
		return fromCall(c.Undelegate(m.caller(a.Caller), a.Asset, m.ActorAddr(a.Actor), m.OpAcc(a.Op), amt(a.Amount), a.Nonce))
	case "associate":
		return fromCall(c.Associate(m.caller(a.Caller), a.Lz, m.ActorAddr(a.Actor), m.OpAcc(a.Op)))
	case "dissociate":
		return fromCall(c.Dissociate(m.caller(a.Caller), a.Lz, m.ActorAddr(a.Actor)))
	case "depositNST":
		pk := nstPubkey(a.Actor, a.N)
		o, err := fromCall(c.DepositNST(m.caller(a.Caller), a.Asset, pk, m.ActorAddr(a.Actor), amt(a.Amount)))
		if err == nil && o.OK {
			m.NstKeys[a.Actor] = append(m.NstKeys[a.Actor], pk)
		}
		return o, err
	case "withdrawNST":
		pk := nstPubkey(a.Actor, a.N)
		return fromCall(c.WithdrawNST(m.caller(a.Caller), a.Asset, pk, m.ActorAddr(a.Actor), amt(a.Amount)))
	case "nativeDelegate", "nativeUndelegate":
		var kvs []delegationtypes.KeyValue
		for i, op := range a.Ops {
			kvs = append(kvs, sim.KV(m.OpAcc(op), amt(a.Amounts[i])))
		}
		if a.Signer > 0 {
			from := m.ActorKey(a.Actor)
			base := &delegationtypes.DelegationIncOrDecInfo{FromAddress: from.Bech32(), PerOperatorAmounts: kvs}
			var msg sdk.Msg = &delegationtypes.MsgDelegation{BaseInfo: base, AssetID: assetstypes.ExocoreAssetID}
			if a.Kind == "nativeUndelegate" {
				msg = &delegationtypes.MsgUndelegation{BaseInfo: base, AssetID: assetstypes.ExocoreAssetID}
			}
			return m.cosmosAs(a, from, msg)
		}
		f := c.NativeDelegate
		if a.Kind == "nativeUndelegate" {
			f = c.NativeUndelegate
		}
		res, err := f(m.ActorKey(a.Actor), kvs)
		if err != nil {
			return Outcome{}, err
		}
		return Outcome{OK: res.Code == 0, Included: res.Code == 0, Note: res.Log}, nil
	case "slash":
		// x/slashing and x/evidence slash from BeginBlock: move to the beginning of the next block.
		if err := m.nextBlock(maxInt(a.Dt, 1)); err != nil {
			return Outcome{}, err
		}
		if c.Halted != nil {
			return Outcome{}, nil
		}
		infrH := c.Height - a.Back
		if infrH < 0 {
			infrH = 0
		}
		factor, err := sdk.NewDecFromStr(a.Factor)
		if err != nil {
			return Outcome{}, err
		}
		for _, inv := range m.Inv {
			if ps, ok := inv.(preSlasher); ok {
				ps.PreSlash(m, a, infrH)
			}
		}
		cons := m.Keys[a.Key].ConsAddr()
		ctx := c.Ctx()
		var pre []byte
		found, opAddr := c.App.OperatorKeeper.GetOperatorAddressForChainIDAndConsAddr(ctx, avstypes.ChainIDWithoutRevision(ctx.ChainID()), cons)
		slashID := ""
		if found {
			slashID = slashIDFor(a.Infr, infrH)
			if info, err := c.App.OperatorKeeper.GetOperatorSlashInfo(ctx, m.W.AvsAddr, opAddr.String(), slashID); err == nil && info != nil {
				pre = []byte("exists")
			}
		}
		guardCall(c, "BeginBlock(slash)", func() {
			c.App.StakingKeeper.SlashWithInfractionReason(ctx, cons, infrH, a.Power, factor, stakingtypes.Infraction(a.Infr))
		})
		if c.Halted != nil {
			return Outcome{}, nil
		}
		ok := false
		if found && pre == nil {
			if info, err := c.App.OperatorKeeper.GetOperatorSlashInfo(c.Ctx(), m.W.AvsAddr, opAddr.String(), slashID); err == nil && info != nil {
				ok = true
			}
		}
		return Outcome{OK: ok, Included: true, Note: fmt.Sprintf("found=%v id=%s", found, slashID)}, nil
	case "evidence":
		// double-sign evidence delivered by the consensus engine in RequestBeginBlock: the real
		// x/evidence path (slash + jail + tombstone through the staking interface)
		c.EndBlock()
		c.Commit()
		if c.Halted != nil {
			return Outcome{}, nil
		}
		cons := m.Keys[a.Key].ConsAddr()
		var pw int64 = a.Power
		if _, v := c.ValSet.GetByAddress(cons); v != nil {
			pw = v.VotingPower
		}
		h := c.Height + 1 - a.Back
		if h < 1 {
			h = 1
		}
		ev := abci.Misbehavior{
			Type: abci.MisbehaviorType_DUPLICATE_VOTE, Validator: abci.Validator{Address: cons, Power: pw},
			Height: h, Time: c.Time, TotalVotingPower: c.ValSet.TotalVotingPower(),
		}
		c.BeginBlock(time.Duration(maxInt(a.Dt, 1))*time.Second, &sim.BlockOpts{Evidence: []abci.Misbehavior{ev}})
		return Outcome{OK: true, Included: true}, nil
	case "jail", "unjail":
		if err := m.nextBlock(maxInt(a.Dt, 1)); err != nil {
			return Outcome{}, err
		}
		if c.Halted != nil {
			return Outcome{}, nil
		}
		cons := m.Keys[a.Key].ConsAddr()
		guardCall(c, "BeginBlock(jail)", func() {
			if a.Kind == "jail" {
				c.App.StakingKeeper.Jail(c.Ctx(), cons)
			} else {
				c.App.StakingKeeper.Unjail(c.Ctx(), cons)
			}
		})
		return Outcome{OK: true, Included: true}, nil
	case "nstUpdate":
		// the oracle's entry point into the ledger for native-restaking balance changes
		v := sdkmath.NewIntFromBigInt(amt(a.Amount))
		if a.Neg {
			v = v.Neg()
		}
		var err error
		guardCall(c, "nstUpdate", func() {
			err = c.App.DelegationKeeper.UpdateNSTBalance(c.Ctx(), m.StakerID(a.Actor, a.Asset), m.W.AssetIDs[a.Asset], v)
		})
		note := ""
		if err != nil {
			note = err.Error()
		}
		return Outcome{OK: err == nil, Included: true, Note: note}, nil
	case "price":
		key := m.Keys[a.Key]
		var entries []sim.PriceEntry
		for i, d := range a.Dets {
			entries = append(entries, sim.PriceEntry{Price: a.Prices[i], Decimal: a.Dec, Timestamp: a.Ts, DetID: d})
		}
		msg := sim.BuildPriceMsg(key, a.Feeder, a.Src, entries, a.Based, a.PNonce)
		if a.Pad > 0 && len(msg.Prices) > 0 {
			msg.Prices[0].Desc = strings.Repeat("x", a.Pad)
		}
		msgs := []sdk.Msg{msg}
		if a.Twice {
			if a.N == 1 {
				// the same report again with the validator's next nonce: admissible, but it
				// carries nothing new, so the second message fails and with it the transaction
				msg2 := sim.BuildPriceMsg(key, a.Feeder, a.Src, entries, a.Based, a.PNonce+1)
				msgs = append(msgs, msg2)
			} else {
				msgs = append(msgs, msg)
			}
		}
		other := m.Keys[(a.Key+1)%len(m.Keys)]
		var bz []byte
		var err error
		if a.Co > 0 {
			co := m.Keys[(a.Co-1)%len(m.Keys)]
			msgs = []sdk.Msg{msg, sim.BuildPriceMsg(co, a.Feeder, a.Src, entries, a.Based, a.CoNonce)}
			signWith := []sim.ConsKey{key, key}
			if a.CoOwn {
				signWith[1] = co
			}
			bz, err = c.BuildPriceTxMulti([]sim.ConsKey{key, co}, signWith, msgs...)
		} else {
			bz, err = c.BuildPriceTx(key, sim.PriceSig(a.Sig), other, msgs...)
		}
		if err != nil {
			return Outcome{}, err
		}
		m.lastTx = bz
		if a.Mode > 0 {
			res := c.CheckTx(bz, a.Mode == 2)
			return Outcome{OK: res.Code == 0, Included: false, Admitted: res.Code == 0, Note: res.Log, Priority: res.Priority, GasWanted: res.GasWanted, GasUsed: res.GasUsed}, nil
		}
		res := c.DeliverTx(bz)
		adm := res.Code == 0 || strings.HasPrefix(res.Log, "failed to execute message") || strings.HasPrefix(res.Log, "recovered")
		return Outcome{OK: res.Code == 0, Included: res.Code == 0, Admitted: adm, Note: res.Log, GasWanted: res.GasWanted, GasUsed: res.GasUsed}, nil
	case "payFee":
		// an ordinary transaction whose only purpose is its fee (fee income for the collector)
		to := m.ActorKey(a.Actor)
		msg := banktypes.NewMsgSend(to.Acc(), to.Acc(), sdk.NewCoins(sdk.NewCoin(utils.BaseDenom, sdkmath.NewInt(1))))
		bz, err := c.BuildCosmosTx(to, 300_000, sdkmath.NewIntFromBigInt(amt(a.Amount)), msg)
		if err != nil {
			return Outcome{}, err
		}
		res := c.DeliverTx(bz)
		return Outcome{OK: res.Code == 0, Included: res.Code == 0, Note: res.Log}, nil
	case "optIn":
		msg := &operatortypes.OptIntoAVSReq{FromAddress: m.W.Operators[a.Op].Bech32(), AvsAddress: m.W.AvsAddr, PublicKeyJSON: keyJSON(m, a)}
		return m.cosmosAs(a, m.W.Operators[a.Op], msg)
	case "optOut":
		msg := &operatortypes.OptOutOfAVSReq{FromAddress: m.W.Operators[a.Op].Bech32(), AvsAddress: m.W.AvsAddr}
		return m.cosmosAs(a, m.W.Operators[a.Op], msg)
	case "setKey":
		msg := &operatortypes.SetConsKeyReq{Address: m.W.Operators[a.Op].Bech32(), AvsAddress: m.W.AvsAddr, PublicKeyJSON: keyJSON(m, a)}
		return m.cosmosAs(a, m.W.Operators[a.Op], msg)
	case "msgUnjail":
		// the operator asks x/slashing to lift its jail (real MsgUnjail through DeliverTx)
		op := m.W.Operators[a.Op]
		return m.cosmosAs(a, op, &slashingtypes.MsgUnjail{ValidatorAddr: sdk.ValAddress(op.Acc()).String()})
	case "regOperator":
		who := m.Ident(a.Ident)
		info := &operatortypes.OperatorInfo{EarningsAddr: who.Bech32(), ApproveAddr: who.Bech32(), OperatorMetaInfo: "probe", Commission: stakingtypes.NewCommission(sdk.ZeroDec(), sdk.OneDec(), sdk.OneDec())}
		// a.N selects the client-chain earnings addresses the operator registers with
		hexAddr := who.Addr.Hex()
		switch a.N {
		case 1:
			info.ClientChainEarningsAddr = &operatortypes.ClientChainEarningAddrList{EarningInfoList: []*operatortypes.ClientChainEarningAddrInfo{{LzClientChainID: 101, ClientChainEarningAddr: hexAddr}}}
		case 2:
			info.ClientChainEarningsAddr = &operatortypes.ClientChainEarningAddrList{EarningInfoList: []*operatortypes.ClientChainEarningAddrInfo{{LzClientChainID: 101, ClientChainEarningAddr: "not-an-address"}}}
		case 3:
			info.ClientChainEarningsAddr = &operatortypes.ClientChainEarningAddrList{EarningInfoList: []*operatortypes.ClientChainEarningAddrInfo{{LzClientChainID: 101, ClientChainEarningAddr: hexAddr}, {LzClientChainID: 101, ClientChainEarningAddr: hexAddr}}}
		case 4:
			info.ClientChainEarningsAddr = &operatortypes.ClientChainEarningAddrList{EarningInfoList: []*operatortypes.ClientChainEarningAddrInfo{{LzClientChainID: 999, ClientChainEarningAddr: hexAddr}}}
		case 5:
			info.ClientChainEarningsAddr = &operatortypes.ClientChainEarningAddrList{EarningInfoList: []*operatortypes.ClientChainEarningAddrInfo{{LzClientChainID: 102, ClientChainEarningAddr: hexAddr + "5152535455565758595a5b5c"}}}
		}
		return m.cosmosAs(a, who, &operatortypes.RegisterOperatorReq{FromAddress: who.Bech32(), Info: info})
	case "regChain":
		// (a.Key > 0: an address length other than 20 bytes, e.g. 32 for a non-EVM client chain)
		addrLen := uint8(20)
		if a.Key > 0 {
			addrLen = uint8(a.Key)
		}
		return fromCall(c.Precompile(m.caller(a.Caller), sim.AssetsPrecompileAddr, c.AssetsABI(), "registerOrUpdateClientChain", uint32(a.Lz), addrLen, fmt.Sprintf("chain-%d", a.Lz), "probe", "ECDSA"))
	case "depositTok":
		// a deposit of a token that was registered during the history (kind regToken with the same
		// Lz and N); the staker is the actor's address, as many bytes as the chain asks for
		tok := make([]byte, 32)
		copy(tok, []byte{0xaa, byte(a.N), byte(a.N >> 8), 0x01})
		if a.Neg {
			// the chain's native restaking token (the address of 0xee bytes)
			for i := range tok {
				tok[i] = 0xee
			}
		}
		staker := make([]byte, 32)
		copy(staker, m.ActorAddr(a.Actor).Bytes())
		copy(staker[20:], []byte{0x51, 0x52, 0x53, 0x54, 0x55, 0x56, 0x57, 0x58, 0x59, 0x5a, 0x5b, 0x5c})
		if a.Neg && a.Mode == 3 {
			return fromCall(c.Precompile(m.caller(a.Caller), sim.AssetsPrecompileAddr, c.AssetsABI(), "withdrawNST", uint32(a.Lz), nstPubkey(a.Actor, a.N%3), staker, amt(a.Amount)))
		}
		switch a.Mode {
		case 1: // delegate it to an operator
			return fromCall(c.Precompile(m.caller(a.Caller), sim.DelegationPrecompileAddr, c.DelegationABI(), "delegate", uint32(a.Lz), c.NextLzNonce(a.Lz), tok, staker, []byte(m.OpAcc(a.Op).String()), amt(a.Amount)))
		case 2: // undelegate
			return fromCall(c.Precompile(m.caller(a.Caller), sim.DelegationPrecompileAddr, c.DelegationABI(), "undelegate", uint32(a.Lz), c.NextLzNonce(a.Lz), tok, staker, []byte(m.OpAcc(a.Op).String()), amt(a.Amount)))
		case 3: // withdraw
			return fromCall(c.Precompile(m.caller(a.Caller), sim.AssetsPrecompileAddr, c.AssetsABI(), "withdrawLST", uint32(a.Lz), tok, staker, amt(a.Amount)))
		case 4: // associate the staker with the operator
			return fromCall(c.Precompile(m.caller(a.Caller), sim.DelegationPrecompileAddr, c.DelegationABI(), "associateOperatorWithStaker", uint32(a.Lz), staker, []byte(m.OpAcc(a.Op).String())))
		}
		if a.Neg {
			pk := nstPubkey(a.Actor, a.N%3)
			if a.Mode == 3 {
				return fromCall(c.Precompile(m.caller(a.Caller), sim.AssetsPrecompileAddr, c.AssetsABI(), "withdrawNST", uint32(a.Lz), pk, staker, amt(a.Amount)))
			}
			return fromCall(c.Precompile(m.caller(a.Caller), sim.AssetsPrecompileAddr, c.AssetsABI(), "depositNST", uint32(a.Lz), pk, staker, amt(a.Amount)))
		}
		return fromCall(c.Precompile(m.caller(a.Caller), sim.AssetsPrecompileAddr, c.AssetsABI(), "depositLST", uint32(a.Lz), tok, staker, amt(a.Amount)))
	case "regToken":
		tok := make([]byte, 32)
		copy(tok, []byte{0xaa, byte(a.N), byte(a.N >> 8), 0x01})
		if a.Neg {
			for i := range tok {
				tok[i] = 0xee // the chain's native restaking token
			}
		}
		return fromCall(c.Precompile(m.caller(a.Caller), sim.AssetsPrecompileAddr, c.AssetsABI(), "registerToken", uint32(a.Lz), tok, regTokenDecimals(a), fmt.Sprintf("tok-%d", a.N), "probe", fmt.Sprintf("TOK%d,Ethereum,8%s", a.N, []string{"", ",0", ",7", ",10", ",0,0x01", ",1", ",2"}[a.Ident%7])))
	case "extHold":
		// a second AVS-like module places (or releases) a hold on a pending undelegation through
		// the delegation keeper's public hold interface, the one x/dogfood uses
		uds, err := c.App.DelegationKeeper.AllUndelegations(c.Ctx())
		if err != nil {
			return Outcome{}, err
		}
		var keys []string
		for _, u := range uds {
			k := string(delegationtypes.GetUndelegationRecordKey(u.BlockNumber, u.LzTxNonce, u.TxHash, u.OperatorAddr))
			if a.Neg == (m.ExtHolds[k] > 0) && (a.Neg || m.ExtHolds[k] < 2) {
				keys = append(keys, k)
			}
		}
		if len(keys) == 0 {
			return Outcome{OK: false, Included: false, Note: "no pending record to hold or release"}, nil
		}
		sort.Strings(keys)
		k := keys[a.N%len(keys)]
		var herr error
		guardCall(c, "extHold", func() {
			if a.Neg {
				herr = c.App.DelegationKeeper.DecrementUndelegationHoldCount(c.Ctx(), []byte(k))
			} else {
				herr = c.App.DelegationKeeper.IncrementUndelegationHoldCount(c.Ctx(), []byte(k))
			}
		})
		if herr != nil {
			return Outcome{OK: false, Included: true, ExtHoldRefused: a.Neg, Note: "hold interface: " + herr.Error() + " " + fmt.Sprintf("%q", k)}, nil
		}
		if m.ExtHolds == nil {
			m.ExtHolds = map[string]int{}
		}
		if a.Neg {
			m.ExtHolds[k]--
			m.ExtReleased++
		} else {
			m.ExtHolds[k]++
			m.ExtPlaced++
		}
		return Outcome{OK: true, Included: true}, nil
	case "updToken":
		as := m.W.Cfg.Assets[a.Asset]
		return fromCall(c.Precompile(m.caller(a.Caller), sim.AssetsPrecompileAddr, c.AssetsABI(), "updateToken", uint32(as.LzID), pad32b(as.AddrBytes()), "probe-"+fmt.Sprint(a.N)))
	case "updateParams":
		return m.updateParams(a)
	case "rawCall":
		return m.rawCall(a)
	case "govSubmit":
		return m.govSubmit(a)
	case "govDeposit":
		return m.govDeposit(a)
	case "govVote":
		return m.govVote(a)
	}
	if strings.HasPrefix(a.Kind, "avs") {
		return m.applyAvs(a)
	}
	if a.Kind == "ethTx" {
		return m.applyEth(a)
	}
	return Outcome{}, fmt.Errorf("unknown action %q", a.Kind)
}

// preSlasher is implemented by invariants that snapshot the state at BeginBlock position right
// before a slash is executed.
type preSlasher interface {
	PreSlash(m *Machine, a *Action, infrH int64)
}

// midBlocker is implemented by invariants that want to look at the committed state between two
// blocks (after EndBlock/Commit, before the next BeginBlock).
type midBlocker interface {
	MidBlock(m *Machine) error
}

func (m *Machine) nextBlock(dt int) error {
	c := m.C
	m.blockGas = 0
	c.EndBlock()
	c.Commit()
	if c.Halted == nil {
		for _, inv := range m.Inv {
			if mb, ok := inv.(midBlocker); ok {
				if err := mb.MidBlock(m); err != nil {
					return err
				}
			}
		}
	}
	if m.restartNext && c.Halted == nil {
		m.restartNext = false
		if err := c.Restart(); err != nil {
			if h, ok := err.(*sim.Halt); ok {
				c.Halted = h
			} else {
				return err
			}
		}
		m.Restarts++
	}
	var opts *sim.BlockOpts
	if len(m.absentNext) > 0 {
		opts = &sim.BlockOpts{Absent: map[string]bool{}}
		for _, k := range m.absentNext {
			if k >= 0 && k < len(m.Keys) {
				opts.Absent[string(m.Keys[k].ConsAddr())] = true
			}
		}
		m.absentNext = nil
	}
	c.BeginBlock(time.Duration(dt)*time.Second, opts)
	return nil
}

// cosmosAs delivers msgs (which name `rightful` as signer) signed by the rightful account, or,
// for an authorization probe, by somebody else.
func (m *Machine) cosmosAs(a *Action, rightful sim.AccountKey, msgs ...sdk.Msg) (Outcome, error) {
	if a.Signer == 0 {
		return m.cosmos(rightful, msgs...)
	}
	bz, err := m.C.BuildCosmosTxForged(m.Ident(a.Signer-1), rightful, sim.ForgeMode(a.Forge), 2_000_000, sdkmath.NewInt(2_000_000_000_000_000), msgs...)
	if err != nil {
		return Outcome{}, err
	}
	res := m.C.DeliverTx(bz)
	return Outcome{OK: res.Code == 0, Included: res.Code == 0, Note: res.Log}, nil
}

func (m *Machine) cosmos(from sim.AccountKey, msgs ...sdk.Msg) (Outcome, error) {
	res, err := m.C.CosmosTx(from, msgs...)
	if err != nil {
		return Outcome{}, err
	}
	return Outcome{OK: res.Code == 0, Included: res.Code == 0, Note: res.Log}, nil
}

func guardCall(c *sim.Chain, phase string, f func()) {
	defer func() {
		if r := recover(); r != nil {
			c.Halted = &sim.Halt{Phase: phase, Height: c.Height, Value: fmt.Sprint(r)}
		}
	}()
	f()
}

func slashIDFor(infraction int, height int64) string {
	return fmt.Sprintf("0x%x_0x%x", infraction, height)
}

func nstPubkey(actor, n int) []byte {
	pk := make([]byte, 32)
	pk[0] = byte(actor + 1)
	pk[1] = byte(n + 1)
	pk[31] = 0x42
	return pk
}

func maxInt(a, b int) int {
	if a > b {
		return a
	}
	return b
}

// IsNativeAssetID reports whether id is the chain's own token.
func IsNativeAssetID(id string) bool { return id == assetstypes.ExocoreAssetID }

func encodingCodec() codec.Codec { return sim.Codec() }

// regTokenDecimals: 6 unless the action asks for something else (values above the maximum the
// assets module accepts make the registration fail after the oracle has been told)
func regTokenDecimals(a *Action) uint8 {
	if a.Dec > 0 {
		return uint8(a.Dec)
	}
	return 6
}

// simulatable: kinds whose whole effect is one transaction (kinds that end or begin blocks, or
// call keepers directly, cannot be turned into a simulation).
func simulatable(kind string) bool {
	switch kind {
	case "depositLST", "withdrawLST", "depositNST", "withdrawNST", "delegate", "undelegate", "associate", "dissociate",
		"nativeDelegate", "nativeUndelegate", "optIn", "optOut", "setKey", "msgUnjail", "regOperator", "regChain", "regToken", "updToken",
		"updateParams", "rawCall", "payFee", "govSubmit", "govDeposit", "govVote", "ethTx", "price":
		return true
	}
	return strings.HasPrefix(kind, "avs")
}

// keyJSON renders the consensus key an opt-in or key change carries; a.Pad > 0 selects a
// malformed variant (another key type, a key of the wrong length, no key, no JSON at all).
func keyJSON(m *Machine, a *Action) string {
	good := m.Keys[a.Key].Wrapped.ToJSON()
	switch a.Pad {
	case 1:
		return `{"@type":"/cosmos.crypto.secp256k1.PubKey","key":"A2pVJ0mCq3N0lBz0G9wCmIeUqb3S7O9B1n3YbT0gDgXa"}`
	case 2:
		return `{"@type":"/cosmos.crypto.ed25519.PubKey","key":"AQID"}`
	case 3:
		return ""
	case 4:
		return "not json"
	case 5:
		return strings.Replace(good, "ed25519", "sr25519", 1)
	}
	return good
}
