package props

import (
	"fmt"

	sdkmath "cosmossdk.io/math"
	"exoverif/sim"

	assetstypes "github.com/ExocoreNetwork/exocore/x/assets/types"
	dogfoodtypes "github.com/ExocoreNetwork/exocore/x/dogfood/types"
	exominttypes "github.com/ExocoreNetwork/exocore/x/exomint/types"
	feedisttypes "github.com/ExocoreNetwork/exocore/x/feedistribution/types"
	oracletypes "github.com/ExocoreNetwork/exocore/x/oracle/types"
	sdk "github.com/cosmos/cosmos-sdk/types"
	authtypes "github.com/cosmos/cosmos-sdk/x/auth/types"
	govtypes "github.com/cosmos/cosmos-sdk/x/gov/types"
)

func pad32b(b []byte) []byte {
	out := make([]byte, 32)
	copy(out, b)
	return out
}

// paramModules are the modules whose parameter updates property C10 names.
var paramModules = []string{"assets", "oracle", "dogfood", "exomint", "feedistribution"}

func govAuthority() string { return authtypes.NewModuleAddress(govtypes.ModuleName).String() }

// updateParams sends a MsgUpdateParams of a.Module that changes one visible parameter. The
// message names identity a.Ident as authority (a.Ident < 0: the governance module account) and
// is signed by that identity, or - as a probe - by identity a.Signer-1.
func (m *Machine) updateParams(a *Action) (Outcome, error) {
	authority := govAuthority()
	claimed := m.W.Other
	if a.Ident >= 0 {
		claimed = m.Ident(a.Ident)
		authority = claimed.Bech32()
	}
	msg, err := m.paramsMsg(a, authority)
	if err != nil {
		return Outcome{}, err
	}
	if a.Ident < 0 && a.Signer == 0 {
		return Outcome{}, fmt.Errorf("the governance account cannot sign")
	}
	return m.cosmosAs(a, claimed, msg)
}

// paramsMsg builds the MsgUpdateParams of a.Module that changes one visible parameter.
func (m *Machine) paramsMsg(a *Action, authority string) (sdk.Msg, error) {
	c := m.C
	ctx := c.Ctx()
	var msg sdk.Msg
	switch a.Module {
	case "assets":
		p, err := c.App.AssetsKeeper.GetParams(ctx)
		if err != nil || p == nil {
			return nil, fmt.Errorf("assets params: %v", err)
		}
		np := *p
		np.ExocoreLzAppAddress = m.Ident(maxInt(a.Signer-1, 0)).Addr.Hex() // the classic take-over: become the gateway
		msg = &assetstypes.MsgUpdateParams{Authority: authority, Params: np}
	case "oracle":
		p := c.App.OracleKeeper.GetParams(ctx)
		msg = &oracletypes.MsgUpdateParams{Authority: authority, Params: oracletypes.Params{MaxSizePrices: p.MaxSizePrices + 1}}
	case "dogfood":
		p := c.App.StakingKeeper.GetDogfoodParams(ctx)
		switch {
		case a.N > 0:
			p.EpochsUntilUnbonded = uint32(a.N) // the unbonding period itself
		case a.N == -1 && p.MaxValidators > 1:
			p.MaxValidators-- // the size of the validator set
		case a.N == -3:
			p.MinSelfDelegation = p.MinSelfDelegation.MulRaw(2).AddRaw(1) // the eligibility threshold
		case a.N == -4:
			p.MinSelfDelegation = p.MinSelfDelegation.QuoRaw(2)
		default:
			p.MaxValidators++
		}
		msg = &dogfoodtypes.MsgUpdateParams{Authority: authority, Params: p}
	case "exomint":
		p := c.App.ExomintKeeper.GetParams(ctx)
		p.EpochReward = p.EpochReward.Add(sdkmath.NewInt(1))
		msg = &exominttypes.MsgUpdateParams{Authority: authority, Params: p}
	case "feedistribution":
		p := c.App.DistrKeeper.GetParams(ctx)
		p.CommunityTax = p.CommunityTax.Add(sdk.NewDecWithPrec(1, 3))
		msg = &feedisttypes.MsgUpdateParams{Authority: authority, Params: p}
	default:
		return nil, fmt.Errorf("unknown module %q", a.Module)
	}
	return msg, nil
}

var _ = sim.ForgeOwnKey
