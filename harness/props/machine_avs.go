package props

import (
	"encoding/hex"
	"fmt"
	assetstypes "github.com/ExocoreNetwork/exocore/x/assets/types"
	"math/big"

	"exoverif/sim"

	avstypes "github.com/ExocoreNetwork/exocore/x/avs/types"
	operatortypes "github.com/ExocoreNetwork/exocore/x/operator/types"
	"github.com/ethereum/go-ethereum/common"
	"github.com/ethereum/go-ethereum/crypto"
)

// AvsAct carries the fields of the AVS actions (kinds "avs*"). Identities are indexes into the
// machine's identity pool (see Ident): AVS accounts first, then operators, stakers, the
// unrelated account and the gateway.
type AvsAct struct {
	From   int `json:"from"`             // signer of the transaction = the caller the precompile sees (the "contract")
	Sender int `json:"sender,omitempty"` // identity passed as the `sender` argument
	// register / update / deregister
	Name     string   `json:"name,omitempty"`
	Task     int      `json:"task,omitempty"`   // identity used as task address; -1 = zero address
	Slash    int      `json:"slash,omitempty"`  // identity; -1 = zero address
	Reward   int      `json:"reward,omitempty"` // identity; -1 = zero address
	Owners   []int    `json:"owners,omitempty"`
	Assets   []int    `json:"assets,omitempty"` // asset indexes; -1 = an unregistered asset id
	Epoch    string   `json:"epoch,omitempty"`
	MinSelf  uint64   `json:"minself,omitempty"`
	Unbond   uint64   `json:"unbond,omitempty"`
	MinStake uint64   `json:"minstake,omitempty"`
	Params   []uint64 `json:"params,omitempty"`
	// opt in / out
	Via int `json:"via,omitempty"` // 0 = precompile called by From with sender; 1 = operator message signed by From for AVS TargetAvs
	// TargetAvs: identity whose address is the AVS (Via=1), or the task contract identity of a result/challenge
	Target int `json:"target,omitempty"`
	// BLS key registration
	BlsKey  int `json:"bls,omitempty"`     // index into the BLS key pool
	SigMode int `json:"sigmode,omitempty"` // 0 valid, 1 signed by another key, 2 garbage bytes, 3 empty
	// task creation
	Hash  string `json:"hash,omitempty"` // hex
	Resp  uint64 `json:"resp,omitempty"`
	Stat  uint64 `json:"stat,omitempty"`
	Chall uint64 `json:"chall,omitempty"`
	Thr   uint64 `json:"thr,omitempty"`
	// task result: operator message signed by From; Operator is the identity named in the result
	Operator int    `json:"operator,omitempty"`
	TaskID   uint64 `json:"task_id,omitempty"`
	Stage    string `json:"stage,omitempty"`
	RespID   uint64 `json:"resp_id,omitempty"` // task id inside the revealed response
	Num      int64  `json:"num,omitempty"`     // NumberSum of the revealed response
	SigID    uint64 `json:"sig_id,omitempty"`  // task id inside the signed response
	SigNum   int64  `json:"sig_num,omitempty"` // NumberSum inside the signed response
	WithResp bool   `json:"with_resp,omitempty"`
	NilInfo  bool   `json:"nil_info,omitempty"`
	// challenge
	HashMode     int `json:"hashmode,omitempty"`     // 0 the task's hash, 1 another hash
	RespHashMode int `json:"resphashmode,omitempty"` // 0 ABI digest of the stored response, 1 another digest
}

// Ident returns identity i of the pool.
func (m *Machine) Ident(i int) sim.AccountKey {
	ids := m.idents()
	if i < 0 || i >= len(ids) {
		return m.W.Other
	}
	return ids[i]
}

func (m *Machine) idents() []sim.AccountKey {
	var ids []sim.AccountKey
	ids = append(ids, m.W.AVSKeys...)
	ids = append(ids, m.W.Operators...)
	ids = append(ids, m.W.Stakers...)
	ids = append(ids, m.W.Other, m.W.Gateway)
	return ids
}

// OperatorIdent is the identity index of operator i.
func (m *Machine) OperatorIdent(i int) int { return len(m.W.AVSKeys) + i }

func (m *Machine) identAddr(i int) common.Address {
	if i < 0 {
		return common.Address{}
	}
	return m.Ident(i).Addr
}

// BLS returns BLS key i of the pool (key i belongs to operator i by convention).
func (m *Machine) BLS(i int) sim.BLSKey {
	for len(m.bls) <= i {
		m.bls = append(m.bls, sim.NewBLSKey(m.W.Cfg.Seed, len(m.bls)))
	}
	return m.bls[i]
}

func taskResponseBytes(id uint64, num int64) []byte {
	b, _ := avstypes.MarshalTaskResponse(avstypes.TaskResponse{TaskID: id, NumberSum: big.NewInt(num)})
	return b
}

func (m *Machine) avsArgs(x *AvsAct) sim.AVSArgs {
	a := sim.AVSArgs{
		Sender: m.identAddr(x.Sender), Name: x.Name, MinStake: x.MinStake, TaskAddr: m.identAddr(x.Task),
		SlashAddr: m.identAddr(x.Slash), RewardAddr: m.identAddr(x.Reward), Unbonding: x.Unbond, MinSelf: x.MinSelf,
		EpochID: x.Epoch, Params: x.Params,
	}
	for _, o := range x.Owners {
		a.Owners = append(a.Owners, m.Ident(o).Bech32())
	}
	for _, as := range x.Assets {
		if as >= 100 {
			// the (as-100)-th token registered during the history
			k := as - 100
			for i, b := range m.Log {
				if b.Kind != "regToken" || i >= len(m.Outs) || !m.Outs[i].OK {
					continue
				}
				if k > 0 {
					k--
					continue
				}
				tok := make([]byte, 32)
				copy(tok, []byte{0xaa, byte(b.N), byte(b.N >> 8), 0x01})
				if b.Neg {
					for j := range tok {
						tok[j] = 0xee
					}
				}
				n := 20
				if info, err := m.C.App.AssetsKeeper.GetClientChainInfoByIndex(m.C.Ctx(), b.Lz); err == nil && info != nil && info.AddressLength >= 20 && info.AddressLength <= 32 {
					n = int(info.AddressLength)
				}
				_, id := assetstypes.GetStakerIDAndAssetID(b.Lz, nil, tok[:n])
				a.AssetIDs = append(a.AssetIDs, id)
				break
			}
			continue
		}
		if as < 0 || as >= len(m.W.AssetIDs) {
			a.AssetIDs = append(a.AssetIDs, "0x1111111111111111111111111111111111111111_0x65")
		} else {
			a.AssetIDs = append(a.AssetIDs, m.W.AssetIDs[as])
		}
	}
	return a
}

// applyAvs executes an AVS action.
func (m *Machine) applyAvs(a *Action) (Outcome, error) {
	c := m.C
	x := a.Avs
	if x == nil {
		return Outcome{}, fmt.Errorf("%s without avs fields", a.Kind)
	}
	from := m.Ident(x.From)
	switch a.Kind {
	case "avsRegister":
		return fromCall(c.AvsRegister(from, m.avsArgs(x), false))
	case "avsUpdate":
		return fromCall(c.AvsRegister(from, m.avsArgs(x), true))
	case "avsDeregister":
		return fromCall(c.AvsDeregister(from, m.identAddr(x.Sender), x.Name))
	case "avsOptIn", "avsOptOut":
		if x.Via == 1 {
			// the form in which the precompile records a contract's address (the opt-in records are keyed by the string)
			avs := m.identAddr(x.Target).Hex()
			if a.Kind == "avsOptIn" {
				return m.cosmosAs(a, from, &operatortypes.OptIntoAVSReq{FromAddress: from.Bech32(), AvsAddress: avs})
			}
			return m.cosmosAs(a, from, &operatortypes.OptOutOfAVSReq{FromAddress: from.Bech32(), AvsAddress: avs})
		}
		if a.Kind == "avsOptIn" {
			return fromCall(c.AvsOptIn(from, m.identAddr(x.Sender)))
		}
		return fromCall(c.AvsOptOut(from, m.identAddr(x.Sender)))
	case "avsBLS":
		key := m.BLS(x.BlsKey)
		msgHash := crypto.Keccak256Hash([]byte("bls-registration"), m.identAddr(x.Sender).Bytes())
		var sig []byte
		switch x.SigMode {
		case 0:
			sig = key.Sign(msgHash)
		case 1:
			sig = m.BLS(x.BlsKey + 1).Sign(msgHash)
		case 2:
			sig = make([]byte, 96)
			copy(sig, msgHash[:])
		default:
			sig = []byte{}
		}
		return fromCall(c.AvsRegisterBLS(from, m.identAddr(x.Sender), x.Name, key.Pub, sig, msgHash[:]))
	case "avsTask":
		h, _ := hex.DecodeString(x.Hash)
		return fromCall(c.AvsCreateTask(from, m.identAddr(x.Sender), x.Name, h, x.Resp, x.Chall, x.Thr, x.Stat))
	case "avsResult":
		var info *avstypes.TaskResultInfo
		if !x.NilInfo {
			info = &avstypes.TaskResultInfo{
				OperatorAddress: m.Ident(x.Operator).Bech32(), TaskContractAddress: m.identAddr(x.Target).Hex(),
				TaskId: x.TaskID, Stage: x.Stage,
			}
			digest := crypto.Keccak256Hash(taskResponseBytes(x.SigID, x.SigNum))
			switch x.SigMode {
			case 0:
				info.BlsSignature = m.BLS(x.BlsKey).Sign(digest)
			case 1:
				info.BlsSignature = m.BLS(x.BlsKey + 1).Sign(digest)
			case 2:
				info.BlsSignature = make([]byte, 96)
				copy(info.BlsSignature, digest[:])
			default:
				info.BlsSignature = nil
			}
			if x.WithResp {
				info.TaskResponse = taskResponseBytes(x.RespID, x.Num)
			}
		}
		o, err := m.cosmosAs(a, from, &avstypes.SubmitTaskResultReq{FromAddress: from.Bech32(), Info: info})
		if err != nil {
			return Outcome{}, err
		}
		if o.OK && info != nil && x.Stage == avstypes.TwoPhaseCommitOne {
			if m.avsCommit == nil {
				m.avsCommit = map[string]avsCommitRec{}
			}
			m.avsCommit[resKey(info.OperatorAddress, info.TaskContractAddress, info.TaskId)] = avsCommitRec{x.SigNum, x.SigID, x.SigMode, x.BlsKey}
		}
		return o, nil
	case "avsChallenge":
		taskHash := []byte{0xde, 0xad}
		if t, err := c.App.AVSManagerKeeper.GetTaskInfo(c.Ctx(), fmt.Sprint(x.TaskID), m.identAddr(x.From).Hex()); err == nil && x.HashMode == 0 {
			taskHash = t.Hash
		}
		respHash := make([]byte, 32)
		if r, err := c.App.AVSManagerKeeper.GetTaskResultInfo(c.Ctx(), m.Ident(x.Operator).Bech32(), m.identAddr(x.From).Hex(), x.TaskID); err == nil && x.RespHashMode == 0 {
			if tr, err := avstypes.UnmarshalTaskResponse(r.TaskResponse); err == nil && tr.NumberSum != nil {
				if d, err := avstypes.GetTaskResponseDigestEncodeByAbi(tr); err == nil {
					respHash = d[:]
				}
			}
		}
		return fromCall(c.AvsChallenge(from, m.identAddr(x.Sender), taskHash, x.TaskID, respHash, m.Ident(x.Operator).Bech32()))
	}
	return Outcome{}, fmt.Errorf("unknown avs action %q", a.Kind)
}
