package props

import (
	"fmt"
	"math/big"

	"exoverif/sim"

	"github.com/ethereum/go-ethereum/common"
	ethtypes "github.com/ethereum/go-ethereum/core/types"
	"github.com/ethereum/go-ethereum/crypto"
	evmtypes "github.com/evmos/evmos/v16/x/evm/types"
)

// EthAct carries the fields of an "ethTx" action: one signed Ethereum transaction that goes
// through CheckTx (mempool admission) and, if admitted, DeliverTx.
type EthAct struct {
	From     int    `json:"from"`             // identity index of the sender
	Type     int    `json:"type,omitempty"`   // 0 legacy, 1 access list, 2 dynamic fee
	Target   int    `json:"target,omitempty"` // see ethTarget*
	To       int    `json:"to,omitempty"`     // recipient identity of a plain transfer
	Mode     int    `json:"mode,omitempty"`   // forwarder: 0 stop, 1 revert, 2 burn gas, 3 invalid opcode; create: 0 ok, 1 constructor reverts
	Inner    string `json:"inner,omitempty"`  // restaking operation behind a forwarder: depositLST, withdrawLST, delegate, undelegate
	Asset    int    `json:"asset,omitempty"`
	Op       int    `json:"op,omitempty"`
	Actor    int    `json:"actor,omitempty"`
	Amount   string `json:"amt,omitempty"`
	Value    string `json:"value,omitempty"`
	Gas      uint64 `json:"gas,omitempty"`
	Price    string `json:"price,omitempty"`  // gas price (legacy, access list)
	FeeCap   string `json:"feecap,omitempty"` // dynamic fee
	TipCap   string `json:"tipcap,omitempty"`
	NonceOff int    `json:"nonce_off,omitempty"`
	Word     int    `json:"word,omitempty"`
	Access   bool   `json:"access,omitempty"` // non-empty access list
	// filled in by Apply
	Nonce   uint64 `json:"nonce,omitempty"`
	LzNonce uint64 `json:"lz_nonce,omitempty"` // LayerZero nonce of an inner delegate/undelegate
}

const (
	ethTargetTransfer = iota
	ethTargetStorer
	ethTargetReverter
	ethTargetBurner
	ethTargetAssetsForwarder // the gateway forwarder
	ethTargetCreate
	ethTargetDelegationForwarder // (historical name) the forwarder that is not the gateway
	ethTargetPrecompileDirect
)

// ethBuilt is what Apply hands to the oracle about the transaction it sent.
type ethBuilt struct {
	To       *common.Address
	Data     []byte
	Created  common.Address
	CheckOK  bool
	CheckLog string
	Resp     *evmtypes.MsgEthereumTxResponse
	Code     uint32
	Log      string
}

func bigOf(s string) *big.Int {
	if s == "" {
		return new(big.Int)
	}
	v, ok := new(big.Int).SetString(s, 10)
	if !ok {
		return new(big.Int)
	}
	return v
}

// ethCalldata builds recipient and calldata of an ethTx action.
func (m *Machine) ethCalldata(x *EthAct) (*common.Address, []byte, error) {
	c := m.C
	inner := func(abiOf string) ([]byte, error) {
		a := m.W.Cfg.Assets[x.Asset]
		lz := uint32(a.LzID)
		staker := pad32b(m.ActorAddr(x.Actor).Bytes())
		amount := amt(x.Amount)
		switch x.Inner {
		case "depositLST", "withdrawLST":
			return c.AssetsABI().Pack(x.Inner, lz, pad32b(a.AddrBytes()), staker, amount)
		case "registerToken":
			tok := make([]byte, 32)
			copy(tok, []byte{0xbb, byte(x.Word), byte(x.Word >> 8), 0x02})
			return c.AssetsABI().Pack("registerToken", lz, tok, uint8(6), fmt.Sprintf("etok-%d", x.Word), "through a forwarder", fmt.Sprintf("ETK%d,Ethereum,8", x.Word))
		case "delegate", "undelegate":
			n := x.LzNonce
			if n == 0 {
				n = c.LzNonce[a.LzID] + 1 // what Apply will assign
			}
			return c.DelegationABI().Pack(x.Inner, lz, n, pad32b(a.AddrBytes()), staker, []byte(m.OpAcc(x.Op).String()), amount)
		}
		return nil, fmt.Errorf("unknown inner operation %q", x.Inner)
	}
	word := common.LeftPadBytes(big.NewInt(int64(x.Word)).Bytes(), 32)
	switch x.Target {
	case ethTargetTransfer:
		to := m.Ident(x.To).Addr
		return &to, nil, nil
	case ethTargetStorer:
		return &sim.StorerAddr, word, nil
	case ethTargetReverter:
		return &sim.ReverterAddr, word, nil
	case ethTargetBurner:
		return &sim.BurnerAddr, nil, nil
	case ethTargetAssetsForwarder, ethTargetDelegationForwarder:
		// (the second constant selects the forwarder that is not the gateway)
		data, err := inner("")
		if err != nil {
			return nil, nil, err
		}
		target := sim.AssetsPrecompileAddr
		if x.Inner == "delegate" || x.Inner == "undelegate" {
			target = sim.DelegationPrecompileAddr
		}
		to := sim.ForwarderAddr
		if x.Target == ethTargetDelegationForwarder {
			to = sim.OtherForwarderAddr
		}
		payload := append([]byte{byte(x.Mode)}, target.Bytes()...)
		return &to, append(payload, data...), nil
	case ethTargetCreate:
		return nil, sim.CreateInitCode(x.Mode == 0), nil
	case ethTargetPrecompileDirect:
		data, err := inner("")
		if err != nil {
			return nil, nil, err
		}
		to := sim.AssetsPrecompileAddr
		if x.Inner == "delegate" || x.Inner == "undelegate" {
			to = sim.DelegationPrecompileAddr
		}
		return &to, data, nil
	}
	return nil, nil, fmt.Errorf("unknown eth target %d", x.Target)
}

func (m *Machine) applyEth(a *Action) (Outcome, error) {
	c := m.C
	x := a.Eth
	if x == nil {
		return Outcome{}, fmt.Errorf("ethTx without fields")
	}
	from := m.Ident(x.From)
	if x.LzNonce == 0 && (x.Inner == "delegate" || x.Inner == "undelegate") && x.Asset < len(m.W.Cfg.Assets) {
		x.LzNonce = c.NextLzNonce(m.W.Cfg.Assets[x.Asset].LzID)
	}
	to, data, err := m.ethCalldata(x)
	if err != nil {
		return Outcome{}, err
	}
	nonce := int64(c.App.EvmKeeper.GetNonce(c.Ctx(), from.Addr)) + int64(x.NonceOff)
	if nonce < 0 {
		nonce = 0
	}
	x.Nonce = uint64(nonce)
	args := sim.EthTxArgs{From: from, To: to, Nonce: x.Nonce, Value: bigOf(x.Value), GasLimit: x.Gas, Data: data}
	switch x.Type {
	case 2:
		args.GasFeeCap, args.GasTipCap = bigOf(x.FeeCap), bigOf(x.TipCap)
		args.Accesses = &ethtypes.AccessList{}
	case 1:
		args.GasPrice = bigOf(x.Price)
		args.Accesses = &ethtypes.AccessList{}
	default:
		args.GasPrice = bigOf(x.Price)
	}
	if x.Access && args.Accesses != nil {
		*args.Accesses = ethtypes.AccessList{{Address: sim.StorerAddr, StorageKeys: []common.Hash{{}}}}
	}
	bz, _, err := c.BuildEthTx(args)
	if err != nil {
		return Outcome{}, err
	}
	b := &ethBuilt{To: to, Data: data}
	if to == nil {
		b.Created = crypto.CreateAddress(from.Addr, x.Nonce)
	}
	m.lastEth = b
	chk := c.CheckTx(bz, false)
	if c.Halted != nil {
		return Outcome{}, nil
	}
	b.CheckOK, b.CheckLog = chk.Code == 0, chk.Log
	if chk.Code != 0 {
		return Outcome{OK: false, Included: false, Note: "checktx: " + chk.Log}, nil
	}
	res := c.DeliverTx(bz)
	if c.Halted != nil {
		return Outcome{}, nil
	}
	b.Code, b.Log = res.Code, res.Log
	if res.Code != 0 {
		return Outcome{OK: false, Included: false, Note: fmt.Sprintf("delivertx code=%d %s", res.Code, res.Log)}, nil
	}
	resp, err := evmtypes.DecodeTxResponse(res.Data)
	if err != nil {
		return Outcome{}, err
	}
	b.Resp = resp
	m.blockGas += x.Gas
	return Outcome{OK: resp.VmError == "", Included: true, Note: resp.VmError, GasUsed: int64(resp.GasUsed), GasWanted: int64(x.Gas)}, nil
}

func createAddress(from common.Address, nonce uint64) common.Address {
	return crypto.CreateAddress(from, nonce)
}
