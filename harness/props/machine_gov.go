package props

import (
	"fmt"
	"math/big"

	sdkmath "cosmossdk.io/math"
	"github.com/ExocoreNetwork/exocore/utils"
	sdk "github.com/cosmos/cosmos-sdk/types"
	govv1 "github.com/cosmos/cosmos-sdk/x/gov/types/v1"
	govv1beta1 "github.com/cosmos/cosmos-sdk/x/gov/types/v1beta1"
	"pgregory.net/rapid"
)

// Governance actions. Proposals are submitted, funded and voted on with ordinary signed
// transactions; the gov module's EndBlocker tallies and executes them (through the dogfood
// keeper as its staking keeper). Fields: Ident = the signing identity, N = proposal id,
// Amount = deposit, Module = the parameter set a carried MsgUpdateParams changes ("" = no
// message, "text" = a legacy text proposal), Mode (govSubmit) = 0 the message names the
// governance account as authority, 1 it names the proposer; Mode (govVote) = the vote option.

func (m *Machine) govSubmit(a *Action) (Outcome, error) {
	from := m.Ident(a.Ident)
	amt, ok := new(big.Int).SetString(a.Amount, 10)
	if !ok {
		return Outcome{}, fmt.Errorf("bad deposit %q", a.Amount)
	}
	deposit := sdk.NewCoins()
	if amt.Sign() > 0 {
		deposit = sdk.NewCoins(sdk.NewCoin(utils.BaseDenom, sdkmath.NewIntFromBigInt(amt)))
	}
	var msgs []sdk.Msg
	switch a.Module {
	case "":
	case "text":
		c, err := govv1.NewLegacyContent(govv1beta1.NewTextProposal("text", "a text proposal"), govAuthority())
		if err != nil {
			return Outcome{}, err
		}
		msgs = append(msgs, c)
	default:
		authority := govAuthority()
		if a.Mode == 1 {
			authority = from.Bech32()
		}
		msg, err := m.paramsMsg(a, authority)
		if err != nil {
			return Outcome{}, err
		}
		msgs = append(msgs, msg)
	}
	msg, err := govv1.NewMsgSubmitProposal(msgs, deposit, from.Bech32(), "", fmt.Sprintf("proposal %s", a.Module), "generated")
	if err != nil {
		return Outcome{}, err
	}
	return m.cosmos(from, msg)
}

func (m *Machine) govDeposit(a *Action) (Outcome, error) {
	from := m.Ident(a.Ident)
	amt, ok := new(big.Int).SetString(a.Amount, 10)
	if !ok {
		return Outcome{}, fmt.Errorf("bad deposit %q", a.Amount)
	}
	return m.cosmos(from, govv1.NewMsgDeposit(from.Acc(), uint64(a.N), sdk.NewCoins(sdk.NewCoin(utils.BaseDenom, sdkmath.NewIntFromBigInt(amt)))))
}

func (m *Machine) govVote(a *Action) (Outcome, error) {
	from := m.Ident(a.Ident)
	if a.Twice {
		// a weighted vote split over two options
		opts := govv1.WeightedVoteOptions{
			{Option: govv1.VoteOption(a.Mode), Weight: "0.6"},
			{Option: govv1.VoteOption(1 + a.Mode%4), Weight: "0.4"},
		}
		return m.cosmos(from, govv1.NewMsgVoteWeighted(from.Acc(), uint64(a.N), opts, ""))
	}
	return m.cosmos(from, govv1.NewMsgVote(from.Acc(), uint64(a.N), govv1.VoteOption(a.Mode), ""))
}

// govProposals lists the proposals on the chain (id, status).
func (m *Machine) govProposals() []govv1.Proposal {
	var out []govv1.Proposal
	m.C.App.GovKeeper.IterateProposals(m.C.Ctx(), func(p govv1.Proposal) bool {
		out = append(out, p)
		return false
	})
	return out
}

func (m *Machine) drawGov(t *rapid.T, g *GenOpts, a *Action) {
	nIdent := len(m.idents())
	props := m.govProposals()
	minDep := int64(1000)
	if m.W.Cfg.Gov != nil {
		minDep = m.W.Cfg.Gov.MinDeposit
	}
	deposits := []string{"0", "1", fmt.Sprint(minDep - 1), fmt.Sprint(minDep), fmt.Sprint(minDep), fmt.Sprint(minDep), fmt.Sprint(2 * minDep), "99999999999999999999999999999"}
	pickProposal := func(status govv1.ProposalStatus) int {
		var ids []int
		for _, p := range props {
			if p.Status == status {
				ids = append(ids, int(p.Id))
			}
		}
		if len(ids) > 0 && pct(t, 85, "live-proposal?") {
			return ids[uniform(t, len(ids), "proposal")]
		}
		return uniform(t, len(props)+2, "any-proposal")
	}
	switch a.Kind {
	case "govSubmit":
		a.Ident = uniform(t, nIdent, "proposer")
		a.Amount = deposits[uniform(t, len(deposits), "deposit")]
		mods := append([]string{"", "text"}, paramModules...)
		a.Module = mods[uniform(t, len(mods), "carried")]
		if a.Module != "" && a.Module != "text" {
			if pct(t, 25, "own-authority?") {
				a.Mode = 1
			}
			if a.Module == "dogfood" && pct(t, 50, "unbonding?") {
				a.N = 1 + uniform(t, 4, "newN")
			}
			a.Signer = 0
		}
	case "govDeposit":
		a.Ident = uniform(t, nIdent, "depositor")
		a.N = pickProposal(govv1.StatusDepositPeriod)
		a.Amount = deposits[uniform(t, len(deposits), "deposit")]
	case "govVote":
		// validators' operator accounts most of the time (only their votes carry power)
		if pct(t, 75, "operator-votes?") {
			a.Ident = m.OperatorIdent(uniform(t, len(m.W.Operators), "voter-op"))
		} else {
			a.Ident = uniform(t, nIdent, "voter")
		}
		a.N = pickProposal(govv1.StatusVotingPeriod)
		a.Mode = []int{1, 1, 1, 2, 3, 4, 0, 7}[uniform(t, 8, "option")]
		a.Twice = pct(t, 12, "weighted?")
		if a.Twice && (a.Mode < 1 || a.Mode > 4) {
			a.Mode = 1
		}
	}
}
