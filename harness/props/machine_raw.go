package props

import (
	"encoding/hex"
	"fmt"
	"math/big"
	"sort"

	"exoverif/sim"

	"github.com/ethereum/go-ethereum/accounts/abi"
	"github.com/ethereum/go-ethereum/common"
	"pgregory.net/rapid"
)

// rawCall sends arbitrary calldata to one of the restaking precompiles through a real signed
// Ethereum transaction. The call "reports failure" unless the transaction is included, the EVM
// raises no error and the first returned word is the boolean true.
func (m *Machine) rawCall(a *Action) (Outcome, error) {
	c := m.C
	addr, _ := m.precompileOf(a.Module)
	data, err := hex.DecodeString(a.Data)
	if err != nil {
		return Outcome{}, err
	}
	resp, res, err := c.EthCall(m.caller(a.Caller), addr, data, 0)
	if err != nil {
		if c.Halted != nil {
			return Outcome{}, nil
		}
		return Outcome{}, err
	}
	if resp == nil {
		return Outcome{OK: false, Included: false, Note: fmt.Sprintf("code=%d %.200s", res.Code, res.Log)}, nil
	}
	ok := resp.VmError == "" && len(resp.Ret) >= 32 && new(big.Int).SetBytes(resp.Ret[:32]).Cmp(big.NewInt(1)) == 0
	return Outcome{OK: ok, Included: true, Note: resp.VmError}, nil
}

func (m *Machine) precompileOf(name string) (common.Address, abi.ABI) {
	switch name {
	case "delegation":
		return sim.DelegationPrecompileAddr, m.C.DelegationABI()
	case "avs":
		return sim.AvsPrecompileAddr, m.C.AvsABI()
	}
	return sim.AssetsPrecompileAddr, m.C.AssetsABI()
}

// drawRawCall: calldata of a generated method with generated arguments of the right types
// (valid and hostile values per type), then — half of the time — damaged at byte level
// (truncated, extended, a byte flipped, the selector replaced).
func (m *Machine) drawRawCall(t *rapid.T, g *GenOpts, a *Action) {
	m.rawCapBits = g.CapBits
	a.Module = []string{"assets", "delegation", "avs"}[uniform(t, 3, "precompile")]
	_, ab := m.precompileOf(a.Module)
	names := make([]string, 0, len(ab.Methods))
	for n := range ab.Methods {
		names = append(names, n)
	}
	sort.Strings(names)
	method := ab.Methods[names[uniform(t, len(names), "method")]]
	a.Caller = 0
	if a.Module == "avs" && len(m.W.AVSKeys) > 0 {
		a.Caller = 2 + uniform(t, len(m.W.AVSKeys), "avs-caller")
	}
	if pct(t, 12, "other-caller?") {
		a.Caller = 1 + uniform(t, 1+len(m.idents()), "caller")
	}
	args := make([]interface{}, 0, len(method.Inputs))
	for i, in := range method.Inputs {
		args = append(args, m.randomArg(t, in.Type, fmt.Sprintf("arg%d", i)))
	}
	data, err := ab.Pack(method.Name, args...)
	if err != nil {
		data = append([]byte{}, method.ID...)
	}
	if pct(t, 50, "damage?") {
		switch uniform(t, 5, "damage") {
		case 0:
			data = data[:uniform(t, len(data)+1, "cut")]
		case 1:
			for i := 0; i < 1+uniform(t, 40, "extra"); i++ {
				data = append(data, byte(uniform(t, 256, "xb")))
			}
		case 2:
			if len(data) > 0 {
				data[uniform(t, len(data), "pos")] ^= byte(1 + uniform(t, 255, "bit"))
			}
		case 3:
			if len(data) >= 4 {
				for i := 0; i < 4; i++ {
					data[i] = byte(uniform(t, 256, "sel"))
				}
			}
		default:
			// an offset or length word set to a huge value
			if len(data) >= 36 && m.rawCapBits == 0 {
				w := 4 + 32*uniform(t, (len(data)-4)/32, "word")
				for i := 0; i < 32; i++ {
					data[w+i] = 0xff
				}
			}
		}
	}
	a.Data = hex.EncodeToString(data)
}

func (m *Machine) randomArg(t *rapid.T, ty abi.Type, l string) interface{} {
	idents := m.idents()
	someAddr := func() common.Address {
		if pct(t, 10, l+"-zero?") {
			return common.Address{}
		}
		return idents[uniform(t, len(idents), l+"-ident")].Addr
	}
	someString := func() string {
		switch uniform(t, 8, l+"-str") {
		case 0:
			return ""
		case 1:
			return m.W.Operators[uniform(t, len(m.W.Operators), l+"-op")].Bech32()
		case 2:
			return idents[uniform(t, len(idents), l+"-id")].Bech32()
		case 3:
			return m.W.AssetIDs[uniform(t, len(m.W.AssetIDs), l+"-asset")]
		case 4:
			return []string{"minute", "hour", "day", "week", "fast", "fortnight"}[uniform(t, 6, l+"-epoch")]
		case 5:
			b := make([]byte, uniform(t, 300, l+"-len"))
			for i := range b {
				b[i] = byte(32 + uniform(t, 95, l+"-ch"))
			}
			return string(b)
		case 6:
			return "TOK9,Ethereum,8," + []string{"0", "1", "7", "x"}[uniform(t, 4, l+"-iv")]
		default:
			return "name"
		}
	}
	switch ty.T {
	case abi.UintTy:
		var v *big.Int
		switch uniform(t, 6, l+"-uint") {
		case 0:
			v = big.NewInt(0)
		case 1:
			v = big.NewInt(1)
		case 2:
			v = big.NewInt(int64([]int{101, 102, 103, 20, 32}[uniform(t, 5, l+"-known")]))
		case 3:
			v = new(big.Int).Sub(new(big.Int).Lsh(big.NewInt(1), uint(ty.Size)), big.NewInt(1))
		default:
			v = big.NewInt(int64(uniform(t, 1_000_000, l+"-v")))
		}
		max := new(big.Int).Lsh(big.NewInt(1), uint(ty.Size))
		if m.rawCapBits > 0 && ty.Size > m.rawCapBits {
			// listed finding (overflow domain of huge amounts): stay below it, counted by the caller
			max = new(big.Int).Lsh(big.NewInt(1), uint(m.rawCapBits))
		}
		v.Mod(v, max)
		switch ty.Size {
		case 8:
			return uint8(v.Uint64())
		case 16:
			return uint16(v.Uint64())
		case 32:
			return uint32(v.Uint64())
		case 64:
			return v.Uint64()
		}
		return v
	case abi.AddressTy:
		return someAddr()
	case abi.BoolTy:
		return pct(t, 50, l+"-bool")
	case abi.StringTy:
		return someString()
	case abi.BytesTy:
		switch uniform(t, 7, l+"-bytes") {
		case 0:
			return []byte{}
		case 1:
			return pad32b(someAddr().Bytes())
		case 2:
			return pad32b(m.W.Cfg.Assets[uniform(t, len(m.W.Cfg.Assets), l+"-as")].AddrBytes())
		case 3:
			return []byte(m.W.Operators[uniform(t, len(m.W.Operators), l+"-opb")].Bech32())
		case 4:
			return someAddr().Bytes() // 20 bytes where 32 are expected
		case 5:
			return m.BLS(uniform(t, 4, l+"-bls")).Pub
		default:
			b := make([]byte, uniform(t, 130, l+"-blen"))
			for i := range b {
				b[i] = byte(uniform(t, 256, l+"-bb"))
			}
			return b
		}
	case abi.SliceTy:
		n := uniform(t, 5, l+"-n")
		if ty.Elem != nil && ty.Elem.T == abi.StringTy {
			out := make([]string, n)
			for i := range out {
				out[i] = someString()
			}
			return out
		}
		out := make([]uint64, n)
		for i := range out {
			out[i] = uint64(uniform(t, 100, l+"-e"))
		}
		return out
	}
	return nil
}
