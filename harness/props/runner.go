package props

import (
	"crypto/sha256"
	"encoding/hex"
	"encoding/json"
	"errors"
	"fmt"
	"os"
	"path/filepath"
	"sort"
	"strings"
	"sync"
	"testing"

	"exoverif/sim"

	"pgregory.net/rapid"
)

// CaseFile is the replayable form of one case: no random source is needed to run it again.
type CaseFile struct {
	Property  string          `json:"property"`
	Test      string          `json:"test,omitempty"` // go test that replays this file (default: the world test)
	Config    sim.Config      `json:"config"`
	Actions   []Action        `json:"actions"`
	Violation string          `json:"violation,omitempty"`
	Extra     json.RawMessage `json:"extra,omitempty"`
}

// PropStats is what a property test measured about its own run (written for the driver).
type PropStats struct {
	Property    string            `json:"property"`
	Evaluations int               `json:"evaluations"`
	NonTrivial  map[string]bool   `json:"-"`
	NonTrivialN int               `json:"distinct_nontrivial"`
	Labels      map[string]int    `json:"labels"`
	Samples     []json.RawMessage `json:"samples"`
	Aborted     int               `json:"aborted_by_halt"`
	Excluded    map[string]int    `json:"excluded_known_findings,omitempty"`
	Known       []string          `json:"known_findings_reproduced,omitempty"`
	Violations  int               `json:"violations"`
	Rule        string            `json:"rule"`
	Extra       map[string]int64  `json:"extra,omitempty"`
	Shapes      []string          `json:"shapes,omitempty"`
}

var (
	statsMu sync.Mutex
	stats   = map[string]*PropStats{}
	// lastCase is overwritten by every execution of a property function; after a failed
	// rapid.Check the last execution is the minimal failing one.
	lastCase *CaseFile
)

func getStats(prop string) *PropStats {
	statsMu.Lock()
	defer statsMu.Unlock()
	s, ok := stats[prop]
	if !ok {
		s = &PropStats{Property: prop, NonTrivial: map[string]bool{}, Labels: map[string]int{}, Excluded: map[string]int{}, Extra: map[string]int64{}}
		stats[prop] = s
	}
	return s
}

func shortHash(s string) string {
	h := sha256.Sum256([]byte(s))
	return hex.EncodeToString(h[:8])
}

// shapeOf hashes what makes a case distinct: the sequence of (kind, ok) plus class labels.
func shapeOf(m *Machine, extra ...string) string {
	h := sha256.New()
	for i, a := range m.Log {
		ok := "f"
		if i < len(m.Outs) && m.Outs[i].OK {
			ok = "t"
		}
		h.Write([]byte(a.Kind + ok + ";"))
	}
	for _, e := range extra {
		h.Write([]byte("|" + e))
	}
	return hex.EncodeToString(h.Sum(nil))[:16]
}

func (s *PropStats) record(m *Machine, nontrivial bool, sample interface{}, shape string) {
	statsMu.Lock()
	defer statsMu.Unlock()
	s.Evaluations++
	if m != nil {
		for l, n := range m.Labels {
			s.Labels[l] += n
		}
	}
	if nontrivial {
		if !s.NonTrivial[shape] {
			s.NonTrivial[shape] = true
			if len(s.Samples) < 3 && sample != nil {
				b, _ := json.Marshal(sample)
				s.Samples = append(s.Samples, b)
			}
		}
	}
}

func outDir() string {
	d := os.Getenv("VERIF_OUT")
	if d == "" {
		d = filepath.Join(os.TempDir(), "exoverif-out")
	}
	_ = os.MkdirAll(d, 0o755)
	return d
}

func shardName() string {
	s := os.Getenv("VERIF_SHARD")
	if s == "" {
		s = "0"
	}
	return s
}

// flushStats writes the statistics of one property.
func flushStats(prop string) {
	s := getStats(prop)
	statsMu.Lock()
	defer statsMu.Unlock()
	s.NonTrivialN = len(s.NonTrivial)
	s.Shapes = s.Shapes[:0]
	for k := range s.NonTrivial {
		s.Shapes = append(s.Shapes, k)
	}
	sort.Strings(s.Shapes)
	b, _ := json.MarshalIndent(s, "", " ")
	_ = os.WriteFile(filepath.Join(outDir(), fmt.Sprintf("%s.%s.stats.json", prop, shardName())), b, 0o644)
}

// finish is deferred by every property test: writes stats and, on failure, the replay file.
func finish(t *testing.T, prop string) {
	if t.Failed() {
		s := getStats(prop)
		statsMu.Lock()
		s.Violations++
		statsMu.Unlock()
		if lastCase != nil {
			b, _ := json.MarshalIndent(lastCase, "", " ")
			p := filepath.Join(outDir(), fmt.Sprintf("replay-%s-%s.json", prop, shardName()))
			_ = os.WriteFile(p, b, 0o644)
			fmt.Printf("REPLAYFILE property=%s path=%s violation=%q\n", prop, p, lastCase.Violation)
		}
	}
	flushStats(prop)
}

// failer is what rapid.T and testing.T share.
type failer interface {
	Fatalf(format string, args ...any)
	Logf(format string, args ...any)
}

// WorldProp describes a property checked on the world machine.
type WorldProp struct {
	ID         string
	Name       string // registry key (defaults to ID); several variants may serve one property id
	Rule       string
	Gen        GenOpts
	MinSteps   int
	MaxSteps   int
	Config     func(t *rapid.T) sim.Config
	Invariants func() []Invariant
	// NonTrivial classifies a finished case; the second value adds class labels to the shape.
	NonTrivial func(m *Machine, invs []Invariant) (bool, []string)
	// Tail is run after the drawn actions (e.g. drain blocks); its steps are checked as well.
	Tail func(m *Machine) []Action
	// Known returns the id of the known finding a violation matches, or "".
	Known func(m *Machine, v *Violation) string
	// Adapt switches on exclusions-by-construction for the listed findings that still reproduce.
	Adapt func(g *GenOpts, active map[string]bool, st *PropStats)
}

var worldProps = map[string]*WorldProp{}

func registerWorldProp(p *WorldProp) {
	if p.Name == "" {
		p.Name = p.ID
	}
	worldProps[p.Name] = p
}

// runCase executes one case. next returns the next action or ok=false.
func runCase(t failer, p *WorldProp, cfg sim.Config, next func(m *Machine, i int) (Action, bool)) {
	runCaseM(t, p, cfg, next)
}

func runCaseM(t failer, p *WorldProp, cfg sim.Config, next func(m *Machine, i int) (Action, bool)) (mm *Machine) {
	invs := p.Invariants()
	cf := &CaseFile{Property: p.ID, Config: cfg, Test: "Test" + p.Name}
	lastCase = cf
	st := getStats(p.ID)
	st.Rule = p.Rule
	m, err := NewMachine(cfg, invs...)
	if err != nil {
		var v *Violation
		var h *sim.Halt
		if errors.As(err, &v) {
			cf.Violation = v.Error()
			t.Fatalf("VIOLATION %s", v.Error())
		}
		if errors.As(err, &h) {
			st.record(nil, false, nil, "")
			statsMu.Lock()
			st.Aborted++
			statsMu.Unlock()
			return nil
		}
		t.Fatalf("harness: cannot build machine: %v", err)
		return nil
	}
	fail := func(err error) bool {
		cf.Actions = m.Log
		var v *Violation
		var h *sim.Halt
		switch {
		case errors.As(err, &v):
			if p.Known != nil {
				if id := p.Known(m, v); id != "" {
					statsMu.Lock()
					st.Excluded[id]++
					statsMu.Unlock()
					return true
				}
			}
			cf.Violation = v.Error()
			t.Fatalf("VIOLATION %s\nhistory: %s", v.Error(), historyString(m))
		case errors.As(err, &h):
			// a halt is C11's subject; for every other property the case ends without verdict
			if p.ID == "C11" && !strings.Contains(h.Value, "out of scope") {
				if p.Known != nil {
					if id := p.Known(m, &Violation{ID: "C11.I1.halt", Msg: h.Error()}); id != "" {
						statsMu.Lock()
						st.Excluded[id]++
						statsMu.Unlock()
						return true
					}
				}
				cf.Violation = "C11.I1.halt: " + h.Error()
				t.Fatalf("VIOLATION C11.I1.halt: %s\n%s\nhistory: %s", h.Error(), h.Stack, historyString(m))
			}
			if os.Getenv("VERIF_DEBUG_HALT") != "" {
				fmt.Printf("DEBUGHALT %s\n%s\nhistory: %s\n", h.Error(), h.Stack, historyString(m))
			}
			statsMu.Lock()
			st.Aborted++
			v := h.Value
			if len(v) > 90 {
				v = v[:90]
			}
			st.Labels["aborted:"+h.Phase+":"+v]++
			statsMu.Unlock()
		default:
			t.Fatalf("harness error: %v\nhistory: %s", err, historyString(m))
		}
		return true
	}
	for i := 0; ; i++ {
		a, ok := next(m, i)
		if !ok {
			break
		}
		if err := m.Step(a); err != nil {
			if fail(err) {
				st.record(m, false, nil, "")
				return m
			}
		}
	}
	if p.Tail != nil {
		for _, a := range p.Tail(m) {
			if err := m.Step(a); err != nil {
				if fail(err) {
					st.record(m, false, nil, "")
					return m
				}
			}
		}
	}
	cf.Actions = m.Log
	nt, classes := false, []string(nil)
	if p.NonTrivial != nil {
		nt, classes = p.NonTrivial(m, invs)
	}
	st.record(m, nt, cf, shapeOf(m, classes...))
	return m
}

func historyString(m *Machine) string {
	var sb strings.Builder
	for i, a := range m.Log {
		ok, note := "?", ""
		if i < len(m.Outs) {
			ok = fmt.Sprint(m.Outs[i].OK)
			if !m.Outs[i].OK {
				note = m.Outs[i].Note
				if len(note) > 160 {
					note = note[:160]
				}
			}
		}
		fmt.Fprintf(&sb, "\n  %2d %s -> ok=%s %s", i, a.String(), ok, note)
	}
	return sb.String()
}

// runWorldProp is the body of every world-machine property test.
func runWorldProp(t *testing.T, name string) { runWorldPropWith(t, name, nil) }

// runWorldPropWith: probe, if set, may derive from a freshly drawn action a variant to run
// immediately before it (the action itself then follows as the next step).
func runWorldPropWith(t *testing.T, name string, probe func(t *rapid.T, m *Machine, a Action) *Action) {
	p := worldProps[name]
	if p == nil {
		t.Fatalf("unknown world property %s", name)
	}
	id := p.ID
	defer finish(t, id)
	if f := os.Getenv("VERIF_REPLAY"); f != "" {
		replayFile(t, p, f)
		return
	}
	replayKnown(t, p)
	rapid.Check(t, func(rt *rapid.T) {
		cfg := p.Config(rt)
		n := rapid.IntRange(p.MinSteps, p.MaxSteps).Draw(rt, "steps")
		g := p.Gen
		if p.Adapt != nil {
			p.Adapt(&g, activeKnown[p.ID], getStats(p.ID))
		}
		if g.Focus {
			g.FocusAsset = uniform(rt, len(cfg.Assets)+1, "focus-asset") - 1
		}
		if g.ForceFocus > 0 {
			g.Focus, g.FocusAsset = true, g.ForceFocus-1
		}
		if len(g.Tempos) > 0 {
			g.MaxDt = g.Tempos[uniform(rt, len(g.Tempos), "tempo")]
		}
		var queued *Action
		runCase(rt, p, cfg, func(m *Machine, i int) (Action, bool) {
			if queued != nil {
				a := *queued
				queued = nil
				return a, true
			}
			if i >= n {
				return Action{}, false
			}
			a := m.Draw(rt, &g)
			if probe != nil && pct(rt, 50, "probe?") {
				if pr := probe(rt, m, a); pr != nil {
					queued = &a
					return *pr, true
				}
			}
			return a, true
		})
	})
}

func replayFile(t *testing.T, p *WorldProp, path string) {
	b, err := os.ReadFile(path)
	if err != nil {
		t.Fatalf("replay: %v", err)
	}
	var cf CaseFile
	if err := json.Unmarshal(b, &cf); err != nil {
		t.Fatalf("replay: %v", err)
	}
	saved := p.Known
	p.Known = nil // a replay reports whatever it finds
	defer func() { p.Known = saved }()
	tail := p.Tail
	p.Tail = nil
	defer func() { p.Tail = tail }()
	m := runCaseM(t, p, cf.Config, func(m *Machine, i int) (Action, bool) {
		if i >= len(cf.Actions) {
			return Action{}, false
		}
		return cf.Actions[i], true
	})
	if m != nil {
		fmt.Printf("replayed without violation; history: %s\n", historyString(m))
	}
}

// knownFindings are loaded from /verif/known_findings.txt (never written at run time).
type knownFinding struct {
	Property string
	ID       string // invariant id
	Sig      string // name of the root-cause signature (a Go predicate of the property decides membership)
	Match    string // substring the violation message must contain ("_" stands for a blank)
	Text     string
	Replay   string
}

// Name identifies a listed finding.
func (k knownFinding) Name() string { return k.ID + "/" + k.Sig }

func findingsDir() string {
	if d := os.Getenv("VERIF_ROOT"); d != "" {
		return d
	}
	return "/verif"
}

func loadKnown(prop string) []knownFinding {
	b, err := os.ReadFile(filepath.Join(findingsDir(), "known_findings.txt"))
	if err != nil {
		return nil
	}
	var out []knownFinding
	for _, line := range strings.Split(string(b), "\n") {
		line = strings.TrimSpace(line)
		if !strings.HasPrefix(line, "finding:") {
			continue
		}
		// finding: property=C03 id=C03.I3.xyz replay=findings/x.json <text>
		kf := knownFinding{}
		rest := strings.TrimSpace(strings.TrimPrefix(line, "finding:"))
		fields := strings.Fields(rest)
		var text []string
		for _, f := range fields {
			switch {
			case strings.HasPrefix(f, "property="):
				kf.Property = strings.TrimPrefix(f, "property=")
			case strings.HasPrefix(f, "id="):
				kf.ID = strings.TrimPrefix(f, "id=")
			case strings.HasPrefix(f, "replay="):
				kf.Replay = strings.TrimPrefix(f, "replay=")
			case strings.HasPrefix(f, "sig="):
				kf.Sig = strings.TrimPrefix(f, "sig=")
			case strings.HasPrefix(f, "match="):
				kf.Match = strings.ReplaceAll(strings.TrimPrefix(f, "match="), "_", " ")
			default:
				text = append(text, f)
			}
		}
		kf.Text = strings.Join(text, " ")
		if kf.Property == prop {
			out = append(out, kf)
		}
	}
	return out
}

// activeKnown holds, per property, the ids of the listed findings whose saved input still
// violates on the current tree. Only those switch on their exclusion.
var activeKnown = map[string]map[string]bool{}

type recordingFailer struct {
	failed bool
	msg    string
}

func (r *recordingFailer) Fatalf(format string, args ...any) {
	r.failed = true
	r.msg = fmt.Sprintf(format, args...)
	panic(r)
}
func (r *recordingFailer) Logf(string, ...any) {}

// replayKnown re-runs the saved input of every listed finding of this property.
func replayKnown(t *testing.T, p *WorldProp) {
	act := map[string]bool{}
	activeKnown[p.ID] = act
	for _, kf := range loadKnown(p.ID) {
		path := filepath.Join(findingsDir(), kf.Replay)
		b, err := os.ReadFile(path)
		if err != nil {
			t.Logf("known finding %s: cannot read %s: %v", kf.ID, path, err)
			continue
		}
		var cf CaseFile
		if err := json.Unmarshal(b, &cf); err != nil {
			continue
		}
		rf := &recordingFailer{}
		func() {
			defer func() {
				if r := recover(); r != nil && r != interface{}(rf) {
					panic(r)
				}
			}()
			saved, tail := p.Known, p.Tail
			p.Known, p.Tail = nil, nil
			defer func() { p.Known, p.Tail = saved, tail }()
			runCase(rf, p, cf.Config, func(m *Machine, i int) (Action, bool) {
				if i >= len(cf.Actions) {
					return Action{}, false
				}
				return cf.Actions[i], true
			})
		}()
		if rf.failed && strings.Contains(rf.msg, kf.ID) && strings.Contains(rf.msg, kf.Match) {
			act[kf.Name()] = true
			fmt.Printf("KNOWN-FINDING: property=%s %s %s\n", p.ID, kf.Name(), kf.Text)
			st := getStats(p.ID)
			statsMu.Lock()
			st.Known = append(st.Known, kf.Name())
			statsMu.Unlock()
		}
	}
}

// replayKnownGeneric is replayKnown for properties that are not plain world-machine tests: judge
// re-runs the saved input and returns the violation it finds (or nil).
// knownMatch: property -> finding name -> its match string (for findings that still reproduce).
var knownMatch = map[string]map[string]string{}

func replayKnownGeneric(t *testing.T, prop string, judge func(cf *CaseFile) *Violation) {
	act := map[string]bool{}
	activeKnown[prop] = act
	knownMatch[prop] = map[string]string{}
	st := getStats(prop)
	for _, kf := range loadKnown(prop) {
		b, err := os.ReadFile(filepath.Join(findingsDir(), kf.Replay))
		if err != nil {
			t.Logf("known finding %s: cannot read %s: %v", kf.ID, kf.Replay, err)
			continue
		}
		var cf CaseFile
		if err := json.Unmarshal(b, &cf); err != nil {
			continue
		}
		if v := judge(&cf); v != nil && strings.Contains(v.Error(), kf.ID) && (kf.Match == "*" || strings.HasPrefix(kf.Match, "fn:") || strings.Contains(v.Error(), kf.Match)) {
			act[kf.Name()] = true
			knownMatch[prop][kf.Name()] = kf.Match
			fmt.Printf("KNOWN-FINDING: property=%s %s %s\n", prop, kf.Name(), kf.Text)
			statsMu.Lock()
			st.Known = append(st.Known, kf.Name())
			statsMu.Unlock()
		}
	}
}
