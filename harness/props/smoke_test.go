package props

import (
	"math/big"
	"testing"
	"time"

	"exoverif/sim"
	delegationtypes "github.com/ExocoreNetwork/exocore/x/delegation/types"
)

func TestSmoke(t *testing.T) {
	w, err := sim.BuildWorld(sim.DefaultConfig(1))
	if err != nil {
		t.Fatal(err)
	}
	t0 := time.Now()
	c, err := sim.NewChain(w)
	if err != nil {
		t.Fatal(err)
	}
	t.Logf("init %v valset=%d", time.Since(t0), c.ValSet.Size())
	c.BeginBlock(5*time.Second, nil)
	if c.Halted != nil {
		t.Fatal(c.Halted, c.Halted.Stack)
	}
	st := w.Stakers[0].Addr
	r, err := c.DepositLST(w.Gateway, 0, st, big.NewInt(1000000))
	t.Logf("deposit %+v err=%v", r, err)
	r, err = c.Delegate(w.Gateway, 0, st, w.Operators[0].Acc(), big.NewInt(500000), c.NextLzNonce(101))
	t.Logf("delegate %+v err=%v", r, err)
	r, err = c.Undelegate(w.Gateway, 0, st, w.Operators[0].Acc(), big.NewInt(100000), c.NextLzNonce(101))
	t.Logf("undelegate %+v err=%v", r, err)
	r, err = c.DepositLST(w.Other, 0, st, big.NewInt(1000000))
	t.Logf("deposit by other %+v err=%v", r, err)
	res, err := c.NativeDelegate(w.Stakers[1], []delegationtypes.KeyValue{sim.KV(w.Operators[0].Acc(), big.NewInt(12345))})
	t.Logf("native delegate code=%d log=%s err=%v", res.Code, res.Log, err)
	_ = res
	t1 := time.Now()
	for i := 0; i < 30; i++ {
		c.NextBlock(7 * time.Second)
		if c.Halted != nil {
			t.Fatal(c.Halted, c.Halted.Stack)
		}
	}
	t.Logf("30 blocks %v; valsetErr=%v", time.Since(t1), c.ValSetErr)
	uds, _ := c.App.DelegationKeeper.AllUndelegations(c.Ctx())
	t.Logf("undelegations left: %d", len(uds))
	deps, _ := c.App.AssetsKeeper.AllDeposits(c.Ctx())
	for _, d := range deps {
		t.Logf("%+v", d)
	}
}
