package props

import (
	"math/big"

	"exoverif/sim"

	assetstypes "github.com/ExocoreNetwork/exocore/x/assets/types"
	sdk "github.com/cosmos/cosmos-sdk/types"
)

// Exact-arithmetic model of the priced stake of an operator (properties C05 and C20). All
// values are 18-decimal fixed point integers, i.e. value * 10^18, computed with big integers
// only; the implementation's decimal type is never used here.

var e18 = new(big.Int).Exp(big.NewInt(10), big.NewInt(18), nil)

// latestPrice reads the latest stored oracle price of an asset: (value, price decimals).
// The native token has the fixed price 1; an asset without any stored price counts as price 1
// (the chain's documented fallback; generated worlds always start with a price).
func latestPrice(c *sim.Chain, ctx sdk.Context, assetID string) (*big.Int, int) {
	if assetID == assetstypes.ExocoreAssetID {
		return big.NewInt(1), 0
	}
	p := c.App.OracleKeeper.GetParams(ctx)
	tokenID := p.GetTokenIDFromAssetID(assetID)
	if tokenID == 0 {
		return nil, 0
	}
	ptr, found := c.App.OracleKeeper.GetPriceTRLatest(ctx, uint64(tokenID))
	if !found {
		return big.NewInt(1), 0
	}
	v, ok := new(big.Int).SetString(ptr.Price, 10)
	if !ok || v.Sign() <= 0 {
		return big.NewInt(1), 0
	}
	return v, int(ptr.Decimal)
}

// value18 = amount * price / 10^(assetDecimals + priceDecimals), as an 18-decimal fixed point
// number truncated towards zero.
func value18(amount, price *big.Int, assetDecimals, priceDecimals int) *big.Int {
	n := new(big.Int).Mul(amount, price)
	n.Mul(n, e18)
	return n.Quo(n, pow10(assetDecimals+priceDecimals))
}

// assetDecimalsOf returns the configured decimals of a world asset id (model-owned), or -1.
func assetDecimalsOf(w *sim.World, assetID string) int {
	for i, id := range w.AssetIDs {
		if id == assetID {
			return int(w.Cfg.Assets[i].Decimals)
		}
	}
	return -1
}

// opValues is the expected record of one operator for one AVS.
type opValues struct {
	Total  *big.Int
	SelfLo *big.Int // self value with the token equivalent of the self share rounded down
	SelfHi *big.Int // ... with the share quotient rounded at the 18th decimal first (differs from
	// SelfLo only when the exact quotient lies within 10^-18 below an integer)
}

// expectedValues computes the priced stake of an operator over the given asset ids from the
// decoded ledger view and the latest prices.
func expectedValues(m *Machine, ctx sdk.Context, v *View, operator string, assetIDs []string) opValues {
	out := opValues{Total: new(big.Int), SelfLo: new(big.Int), SelfHi: new(big.Int)}
	seen := map[string]bool{}
	for _, id := range assetIDs {
		if seen[id] {
			continue
		}
		seen[id] = true
		row, ok := v.Operator[operator][id]
		if !ok {
			continue
		}
		ad := assetDecimalsOf(m.W, id)
		if ad < 0 {
			continue
		}
		price, pd := latestPrice(m.C, ctx, id)
		if price == nil {
			continue
		}
		out.Total.Add(out.Total, value18(row.Amount, price, ad, pd))
		if row.TotalShare.Sign() == 0 {
			continue
		}
		num := new(big.Int).Mul(row.OperatorShare, row.Amount)
		lo := new(big.Int).Quo(num, row.TotalShare)
		// quotient rounded half-up at the 18th decimal, then truncated to an integer
		r := new(big.Int).Mul(num, e18)
		r.Mul(r, big.NewInt(2)).Add(r, row.TotalShare)
		r.Quo(r, new(big.Int).Mul(row.TotalShare, big.NewInt(2)))
		hi := new(big.Int).Quo(r, e18)
		out.SelfLo.Add(out.SelfLo, value18(lo, price, ad, pd))
		out.SelfHi.Add(out.SelfHi, value18(hi, price, ad, pd))
	}
	return out
}
