package props

import (
	"fmt"
	"math/big"
	"sort"

	sdkmath "cosmossdk.io/math"
	"exoverif/sim"

	assetstypes "github.com/ExocoreNetwork/exocore/x/assets/types"
	delegationtypes "github.com/ExocoreNetwork/exocore/x/delegation/types"
	sdk "github.com/cosmos/cosmos-sdk/types"
	authtypes "github.com/cosmos/cosmos-sdk/x/auth/types"
)

// View is the decoded, API-level state of the restaking ledger (what the keepers' exported
// getters named in the properties report). All amounts are *big.Int / decimal strings so that
// the oracles never compute with the implementation's own number types.
type View struct {
	Height        int64
	Staker        map[string]map[string]StakerRow   // stakerID -> assetID -> row
	Operator      map[string]map[string]OperatorRow // operator bech32 -> assetID -> row
	Undelegations []UndRow
	StakingTotal  map[string]*big.Int // assetID -> published staking total
	Delegations   map[string]DelRow   // "stakerID/assetID/operator" -> row
	StakerLists   map[string][]string // "operator/assetID" -> staker ids
	Associations  map[string]string   // stakerID -> operator
	EscrowNative  *big.Int            // bank balance of delegated_pool
}

type StakerRow struct{ Total, Withdrawable, Pending *big.Int }
type OperatorRow struct {
	Amount, Pending *big.Int
	TotalShare      *big.Int // 18-decimal fixed point as integer (value * 10^18)
	OperatorShare   *big.Int
}
type UndRow struct {
	Key                     string
	Staker, Asset, Operator string
	TxHash                  string
	Nonce                   uint64
	Start, Complete         uint64
	Amount, Actual          *big.Int
	Hold                    uint64
}
type DelRow struct {
	Share *big.Int // 18-decimal fixed point
	Wait  *big.Int
}

func bi(i sdkmath.Int) *big.Int {
	if i.IsNil() {
		return nil
	}
	return new(big.Int).Set(i.BigInt())
}
func bd(d sdkmath.LegacyDec) *big.Int {
	if d.IsNil() {
		return nil
	}
	return new(big.Int).Set(d.BigInt())
}

// Observe reads the ledger through the keepers' exported getters.
func Observe(c *sim.Chain) (*View, error) {
	ctx := c.Ctx()
	v := &View{
		Height: c.Height, Staker: map[string]map[string]StakerRow{}, Operator: map[string]map[string]OperatorRow{},
		StakingTotal: map[string]*big.Int{}, Delegations: map[string]DelRow{}, StakerLists: map[string][]string{},
		Associations: map[string]string{},
	}
	deps, err := c.App.AssetsKeeper.AllDeposits(ctx)
	if err != nil {
		return nil, fmt.Errorf("AllDeposits: %w", err)
	}
	for _, d := range deps {
		m := map[string]StakerRow{}
		for _, a := range d.Deposits {
			m[a.AssetID] = StakerRow{Total: bi(a.Info.TotalDepositAmount), Withdrawable: bi(a.Info.WithdrawableAmount), Pending: bi(a.Info.PendingUndelegationAmount)}
		}
		v.Staker[d.StakerID] = m
	}
	ops, err := c.App.AssetsKeeper.AllOperatorAssets(ctx)
	if err != nil {
		return nil, fmt.Errorf("AllOperatorAssets: %w", err)
	}
	for _, o := range ops {
		m := map[string]OperatorRow{}
		for _, a := range o.AssetsState {
			m[a.AssetID] = OperatorRow{Amount: bi(a.Info.TotalAmount), Pending: bi(a.Info.PendingUndelegationAmount), TotalShare: bd(a.Info.TotalShare), OperatorShare: bd(a.Info.OperatorShare)}
		}
		v.Operator[o.Operator] = m
	}
	uds, err := c.App.DelegationKeeper.AllUndelegations(ctx)
	if err != nil {
		return nil, fmt.Errorf("AllUndelegations: %w", err)
	}
	for _, u := range uds {
		key := delegationtypes.GetUndelegationRecordKey(u.BlockNumber, u.LzTxNonce, u.TxHash, u.OperatorAddr)
		v.Undelegations = append(v.Undelegations, UndRow{
			Key: string(key), Staker: u.StakerID, Asset: u.AssetID, Operator: u.OperatorAddr, TxHash: u.TxHash, Nonce: u.LzTxNonce,
			Start: u.BlockNumber, Complete: u.CompleteBlockNumber, Amount: bi(u.Amount), Actual: bi(u.ActualCompletedAmount),
			Hold: c.App.DelegationKeeper.GetUndelegationHoldCount(ctx, key),
		})
	}
	assets, err := c.App.AssetsKeeper.GetAllStakingAssetsInfo(ctx)
	if err != nil {
		return nil, fmt.Errorf("GetAllStakingAssetsInfo: %w", err)
	}
	for _, a := range assets {
		_, id := assetstypes.GetStakerIDAndAssetIDFromStr(a.AssetBasicInfo.LayerZeroChainID, "", a.AssetBasicInfo.Address)
		v.StakingTotal[id] = bi(a.StakingTotalAmount)
	}
	dss, err := c.App.DelegationKeeper.AllDelegationStates(ctx)
	if err != nil {
		return nil, fmt.Errorf("AllDelegationStates: %w", err)
	}
	for _, d := range dss {
		v.Delegations[d.Key] = DelRow{Share: bd(d.States.UndelegatableShare), Wait: bi(d.States.WaitUndelegationAmount)}
	}
	sls, err := c.App.DelegationKeeper.AllStakerList(ctx)
	if err != nil {
		return nil, fmt.Errorf("AllStakerList: %w", err)
	}
	for _, s := range sls {
		v.StakerLists[s.Key] = append([]string{}, s.Stakers...)
	}
	as, err := c.App.DelegationKeeper.GetAllAssociations(ctx)
	if err != nil {
		return nil, fmt.Errorf("GetAllAssociations: %w", err)
	}
	for _, a := range as {
		v.Associations[a.StakerID] = a.Operator
	}
	esc := authtypes.NewModuleAddress(delegationtypes.DelegatedPoolName)
	v.EscrowNative = c.App.BankKeeper.GetBalance(ctx, esc, assetstypes.ExocoreAssetDenom).Amount.BigInt()
	return v, nil
}

// LedgerTotal is T(asset) = sum withdrawable + sum pools + sum pending actual amounts.
func (v *View) LedgerTotal(asset string) *big.Int {
	t := new(big.Int)
	for _, m := range v.Staker {
		if r, ok := m[asset]; ok {
			t.Add(t, r.Withdrawable)
		}
	}
	for _, m := range v.Operator {
		if r, ok := m[asset]; ok {
			t.Add(t, r.Amount)
		}
	}
	for _, u := range v.Undelegations {
		if u.Asset == asset {
			t.Add(t, u.Actual)
		}
	}
	return t
}

// Assets lists every asset id that appears anywhere in the view, sorted.
func (v *View) Assets() []string {
	set := map[string]bool{}
	for a := range v.StakingTotal {
		set[a] = true
	}
	for _, m := range v.Staker {
		for a := range m {
			set[a] = true
		}
	}
	for _, m := range v.Operator {
		for a := range m {
			set[a] = true
		}
	}
	for _, u := range v.Undelegations {
		set[u.Asset] = true
	}
	out := make([]string, 0, len(set))
	for a := range set {
		out = append(out, a)
	}
	sort.Strings(out)
	return out
}

// NonNegative returns a description of the first negative (or nil) figure, or "".
func (v *View) NonNegative() string {
	neg := func(x *big.Int) bool { return x == nil || x.Sign() < 0 }
	for _, id := range sortedKeys(v.Staker) {
		for _, a := range sortedKeys(v.Staker[id]) {
			r := v.Staker[id][a]
			if neg(r.Total) || neg(r.Withdrawable) || neg(r.Pending) {
				return fmt.Sprintf("staker %s asset %s: %v", id, a, r)
			}
		}
	}
	for _, id := range sortedKeys(v.Operator) {
		for _, a := range sortedKeys(v.Operator[id]) {
			r := v.Operator[id][a]
			if neg(r.Amount) || neg(r.Pending) || neg(r.TotalShare) || neg(r.OperatorShare) {
				return fmt.Sprintf("operator %s asset %s: %v", id, a, r)
			}
		}
	}
	for _, u := range v.Undelegations {
		if neg(u.Amount) || neg(u.Actual) {
			return fmt.Sprintf("undelegation %s: %v", u.Key, u)
		}
	}
	for _, k := range sortedKeys(v.Delegations) {
		d := v.Delegations[k]
		if neg(d.Share) || neg(d.Wait) {
			return fmt.Sprintf("delegation %s: %v", k, d)
		}
	}
	for _, a := range sortedKeys(v.StakingTotal) {
		if neg(v.StakingTotal[a]) {
			return fmt.Sprintf("staking total %s: %v", a, v.StakingTotal[a])
		}
	}
	return ""
}

func sortedKeys[V any](m map[string]V) []string {
	out := make([]string, 0, len(m))
	for k := range m {
		out = append(out, k)
	}
	sort.Strings(out)
	return out
}

// NativeBalance of an account.
func NativeBalance(c *sim.Chain, addr sdk.AccAddress) *big.Int {
	return c.App.BankKeeper.GetBalance(c.Ctx(), addr, assetstypes.ExocoreAssetDenom).Amount.BigInt()
}
