package sim

import (
	"crypto/sha256"
	"fmt"

	avsprecompile "github.com/ExocoreNetwork/exocore/precompiles/avs"
	avstypes "github.com/ExocoreNetwork/exocore/x/avs/types"
	abci "github.com/cometbft/cometbft/abci/types"
	"github.com/ethereum/go-ethereum/accounts/abi"
	"github.com/ethereum/go-ethereum/common"
	"github.com/prysmaticlabs/prysm/v4/crypto/bls"
	"github.com/prysmaticlabs/prysm/v4/crypto/bls/blst"
)

// AvsABI is the ABI of the AVS precompile (0x...0901), taken from the precompile itself.
func (c *Chain) AvsABI() abi.ABI {
	p, err := avsprecompile.NewPrecompile(c.App.AVSManagerKeeper, c.App.AuthzKeeper)
	if err != nil {
		panic(err)
	}
	return p.ABI
}

// BLSKey is a deterministic BLS12-381 key pair (the scheme the AVS module verifies with).
type BLSKey struct {
	Secret bls.SecretKey
	Pub    []byte
}

func NewBLSKey(seed uint64, idx int) BLSKey {
	for ctr := 0; ; ctr++ {
		h := sha256.Sum256([]byte(fmt.Sprintf("exoverif/%d/bls/%d/%d", seed, idx, ctr)))
		h[0] &= 0x3f // stay below the group order
		sk, err := blst.SecretKeyFromBytes(h[:])
		if err == nil {
			return BLSKey{Secret: sk, Pub: sk.PublicKey().Marshal()}
		}
	}
}

func (k BLSKey) Sign(msg [32]byte) []byte { return k.Secret.Sign(msg[:]).Marshal() }

// AVSArgs are the arguments of registerAVS / updateAVS.
type AVSArgs struct {
	Sender     common.Address
	Name       string
	MinStake   uint64
	TaskAddr   common.Address
	SlashAddr  common.Address
	RewardAddr common.Address
	Owners     []string
	AssetIDs   []string
	Unbonding  uint64
	MinSelf    uint64
	EpochID    string
	Params     []uint64
}

func (c *Chain) AvsRegister(from AccountKey, a AVSArgs, update bool) (CallResult, error) {
	method := avsprecompile.MethodRegisterAVS
	if update {
		method = avsprecompile.MethodUpdateAVS
	}
	owners, assets, params := a.Owners, a.AssetIDs, a.Params
	if owners == nil {
		owners = []string{}
	}
	if assets == nil {
		assets = []string{}
	}
	if params == nil {
		params = []uint64{}
	}
	return c.Precompile(from, AvsPrecompileAddr, c.AvsABI(), method, a.Sender, a.Name, a.MinStake, a.TaskAddr, a.SlashAddr,
		a.RewardAddr, owners, assets, a.Unbonding, a.MinSelf, a.EpochID, params)
}

func (c *Chain) AvsDeregister(from AccountKey, sender common.Address, name string) (CallResult, error) {
	return c.Precompile(from, AvsPrecompileAddr, c.AvsABI(), avsprecompile.MethodDeregisterAVS, sender, name)
}

func (c *Chain) AvsOptIn(from AccountKey, sender common.Address) (CallResult, error) {
	return c.Precompile(from, AvsPrecompileAddr, c.AvsABI(), avsprecompile.MethodRegisterOperatorToAVS, sender)
}

func (c *Chain) AvsOptOut(from AccountKey, sender common.Address) (CallResult, error) {
	return c.Precompile(from, AvsPrecompileAddr, c.AvsABI(), avsprecompile.MethodDeregisterOperatorFromAVS, sender)
}

func (c *Chain) AvsCreateTask(from AccountKey, sender common.Address, name string, hash []byte, respPeriod, challPeriod, threshold, statPeriod uint64) (CallResult, error) {
	return c.Precompile(from, AvsPrecompileAddr, c.AvsABI(), avsprecompile.MethodCreateAVSTask, sender, name, hash, respPeriod, challPeriod, threshold, statPeriod)
}

func (c *Chain) AvsRegisterBLS(from AccountKey, sender common.Address, name string, pub, sig, msgHash []byte) (CallResult, error) {
	return c.Precompile(from, AvsPrecompileAddr, c.AvsABI(), avsprecompile.MethodRegisterBLSPublicKey, sender, name, pub, sig, msgHash)
}

func (c *Chain) AvsChallenge(from AccountKey, sender common.Address, taskHash []byte, taskID uint64, respHash []byte, operator string) (CallResult, error) {
	return c.Precompile(from, AvsPrecompileAddr, c.AvsABI(), avsprecompile.MethodChallenge, sender, taskHash, taskID, respHash, operator)
}

// SubmitTaskResult delivers a SubmitTaskResultReq signed by `from`.
func (c *Chain) SubmitTaskResult(from AccountKey, fromAddr string, info *avstypes.TaskResultInfo) (abci.ResponseDeliverTx, error) {
	return c.CosmosTx(from, &avstypes.SubmitTaskResultReq{FromAddress: fromAddr, Info: info})
}
