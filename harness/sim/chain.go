package sim

import (
	"encoding/json"
	"fmt"
	"os"
	"runtime/debug"
	"time"

	exocoreapp "github.com/ExocoreNetwork/exocore/app"
	"github.com/ExocoreNetwork/exocore/x/oracle"
	oraclekeeper "github.com/ExocoreNetwork/exocore/x/oracle/keeper"
	oraclecommon "github.com/ExocoreNetwork/exocore/x/oracle/keeper/common"
	oracletypes "github.com/ExocoreNetwork/exocore/x/oracle/types"
	dbm "github.com/cometbft/cometbft-db"
	abci "github.com/cometbft/cometbft/abci/types"
	"github.com/cometbft/cometbft/crypto/tmhash"
	"github.com/cometbft/cometbft/libs/log"
	tmproto "github.com/cometbft/cometbft/proto/tendermint/types"
	tmversion "github.com/cometbft/cometbft/proto/tendermint/version"
	tmtypes "github.com/cometbft/cometbft/types"
	"github.com/cometbft/cometbft/version"
	"github.com/cosmos/cosmos-sdk/baseapp"
	simtestutil "github.com/cosmos/cosmos-sdk/testutil/sims"
	sdk "github.com/cosmos/cosmos-sdk/types"
	"github.com/evmos/evmos/v16/encoding"
)

// ResetOracleGlobals puts every process-global of the oracle module back to its initial value.
// Needed before every case and at every simulated restart: only one app may be live per process.
func ResetOracleGlobals() {
	oraclekeeper.ResetAggregatorContext()
	oraclekeeper.ResetAggregatorContextCheckTx()
	oraclekeeper.ResetCache()
	oraclekeeper.ResetUpdatedFeederIDs()
	oraclecommon.MaxNonce = 3
	oraclecommon.ThresholdA = 2
	oraclecommon.ThresholdB = 3
	oraclecommon.MaxDetID = 5
	oraclecommon.Mode = oracletypes.ConsensusModeASAP
	oracle.VerifResetOnce()
}

// Halt is recorded when an ABCI call panicked: a real node would have stopped here.
type Halt struct {
	Phase  string
	Height int64
	Value  string
	Stack  string
}

func (h *Halt) Error() string {
	return fmt.Sprintf("panic in %s at height %d: %s", h.Phase, h.Height, h.Value)
}

// TxRecord is the consensus-relevant part of a DeliverTx response.
type TxRecord struct {
	Code      uint32
	Data      []byte
	GasWanted int64
	GasUsed   int64
	Log       string `json:"-"`
}

// BlockRecord is what every node must agree on for one block.
type BlockRecord struct {
	Height     int64
	Time       time.Time
	Opts       *BlockOpts `json:",omitempty"`
	Txs        [][]byte
	TxResults  []TxRecord
	ValUpdates []abci.ValidatorUpdate
	ConsParams *tmproto.ConsensusParams
	AppHash    []byte
}

// Chain drives one live ExocoreApp the way CometBFT would.
type Chain struct {
	W      *World
	App    *exocoreapp.ExocoreApp
	DB     dbm.DB
	Height int64 // height of the block in progress, or of the last committed block
	Time   time.Time
	Header tmproto.Header

	InBlock bool
	ValSet  *tmtypes.ValidatorSet // mirror of the consensus validator set
	// ValSetErr is set when an update list returned by EndBlock would have been rejected (and
	// panicked on) by CometBFT.
	ValSetErr error
	Halted    *Halt
	// LastEndBlock is the response of the most recent EndBlock.
	LastEndBlock abci.ResponseEndBlock
	AppHash      []byte
	Blocks       []BlockRecord
	cur          *BlockRecord
	Record       bool

	EthNonce map[string]uint64
	LzNonce  map[uint64]uint64
	// SimOnly: DeliverTx runs the transaction as a node-local simulation instead (not recorded)
	SimOnly   bool
	Simulated int
}

func newApp(db dbm.DB, chainID string) *exocoreapp.ExocoreApp {
	var logger log.Logger = log.NewNopLogger()
	if os.Getenv("VERIF_LOG") != "" {
		logger = log.NewFilter(log.NewTMLogger(log.NewSyncWriter(os.Stdout)), log.AllowError())
	}
	return exocoreapp.NewExocoreApp(
		logger, db, nil, true, map[int64]bool{},
		exocoreapp.DefaultNodeHome, 5,
		encoding.MakeConfig(exocoreapp.ModuleBasics),
		simtestutil.NewAppOptionsWithFlagHome(exocoreapp.DefaultNodeHome),
		baseapp.SetChainID(chainID),
	)
}

// NewChain builds the app for the world, runs InitChain and leaves the chain before block 1.
func NewChain(w *World) (c *Chain, err error) {
	return NewChainFromState(w, w.Genesis, 1)
}

// consensusParams: the application's defaults, with the configured block gas limit if any.
func consensusParams(w *World) *tmproto.ConsensusParams {
	p := *exocoreapp.DefaultConsensusParams
	if w.Cfg.EVM != nil && w.Cfg.EVM.BlockMaxGas > 0 {
		blk := *p.Block
		blk.MaxGas = w.Cfg.EVM.BlockMaxGas
		p.Block = &blk
	}
	return &p
}

// NewChainFromState is NewChain with an explicit app state and initial height (used for the
// export/import round trip).
func NewChainFromState(w *World, state map[string]json.RawMessage, initialHeight int64) (c *Chain, err error) {
	return NewChainFromStateAt(w, state, initialHeight, GenesisTime)
}

// NewChainFromStateAt additionally sets the genesis (InitChain) time.
func NewChainFromStateAt(w *World, state map[string]json.RawMessage, initialHeight int64, genesisTime time.Time) (c *Chain, err error) {
	ResetOracleGlobals()
	defer func() {
		if r := recover(); r != nil {
			err = fmt.Errorf("InitChain panicked: %v\n%s", r, debug.Stack())
		}
	}()
	c = &Chain{W: w, DB: dbm.NewMemDB(), Time: genesisTime, EthNonce: map[string]uint64{}, LzNonce: map[uint64]uint64{}}
	c.App = newApp(c.DB, w.Cfg.ChainID)
	stateBytes, err := json.Marshal(state)
	if err != nil {
		return nil, err
	}
	res := c.App.InitChain(abci.RequestInitChain{
		Time:            genesisTime,
		ChainId:         w.Cfg.ChainID,
		Validators:      []abci.ValidatorUpdate{},
		ConsensusParams: consensusParams(w),
		AppStateBytes:   stateBytes,
		InitialHeight:   initialHeight,
	})
	vals, err := tmtypes.PB2TM.ValidatorUpdates(res.Validators)
	if err != nil {
		return nil, err
	}
	c.ValSet = tmtypes.NewValidatorSet(vals)
	c.Height = initialHeight - 1
	return c, nil
}

// Restart simulates a node restart after the last commit: the app object is thrown away, all
// oracle process state is reset and a new app is opened on the same database.
func (c *Chain) Restart() (err error) {
	if c.InBlock {
		return fmt.Errorf("restart inside a block")
	}
	defer func() {
		if r := recover(); r != nil {
			err = &Halt{Phase: "Restart", Height: c.Height, Value: fmt.Sprint(r), Stack: string(debug.Stack())}
		}
	}()
	ResetOracleGlobals()
	c.App = newApp(c.DB, c.W.Cfg.ChainID)
	if c.App.LastBlockHeight() != c.Height {
		return fmt.Errorf("restart: loaded height %d, want %d", c.App.LastBlockHeight(), c.Height)
	}
	return nil
}

func (c *Chain) guard(phase string, f func()) {
	if c.Halted != nil {
		return
	}
	defer func() {
		if r := recover(); r != nil {
			c.Halted = &Halt{Phase: phase, Height: c.Height, Value: fmt.Sprint(r), Stack: string(debug.Stack())}
		}
	}()
	f()
}

// BlockOpts are the parts of RequestBeginBlock a scenario may want to control.
type BlockOpts struct {
	Absent   map[string]bool // consensus address (hex of bytes) -> did not sign the last block
	Evidence []abci.Misbehavior
	Proposer []byte
}

// BeginBlock starts block Height+1 at Time+dt.
func (c *Chain) BeginBlock(dt time.Duration, opts *BlockOpts) {
	if c.InBlock || c.Halted != nil {
		return
	}
	c.Height++
	c.Time = c.Time.Add(dt)
	proposer := c.ValSet.Validators[0].Address.Bytes()
	if opts != nil && opts.Proposer != nil {
		proposer = opts.Proposer
	}
	c.Header = tmproto.Header{
		Version:            tmversion.Consensus{Block: version.BlockProtocol},
		ChainID:            c.W.Cfg.ChainID,
		Height:             c.Height,
		Time:               c.Time,
		ProposerAddress:    proposer,
		AppHash:            c.AppHash,
		ValidatorsHash:     tmhash.Sum([]byte("validators")),
		NextValidatorsHash: tmhash.Sum([]byte("next_validators")),
		DataHash:           tmhash.Sum([]byte("data")),
		ConsensusHash:      tmhash.Sum([]byte("consensus")),
		LastResultsHash:    tmhash.Sum([]byte("last_result")),
		EvidenceHash:       tmhash.Sum([]byte("evidence")),
	}
	req := abci.RequestBeginBlock{Header: c.Header}
	for _, v := range c.ValSet.Validators {
		signed := true
		if opts != nil && opts.Absent[string(v.Address.Bytes())] {
			signed = false
		}
		req.LastCommitInfo.Votes = append(req.LastCommitInfo.Votes, abci.VoteInfo{
			Validator:       abci.Validator{Address: v.Address.Bytes(), Power: v.VotingPower},
			SignedLastBlock: signed,
		})
	}
	if opts != nil {
		req.ByzantineValidators = opts.Evidence
	}
	c.InBlock = true
	if c.Record {
		c.cur = &BlockRecord{Height: c.Height, Time: c.Time, Opts: opts}
	}
	c.guard("BeginBlock", func() { c.App.BeginBlock(req) })
}

// Ctx is the deliver-state context of the block in progress: writes through it are committed
// with the block, exactly like the writes of a transaction.
func (c *Chain) Ctx() sdk.Context {
	if !c.InBlock {
		return c.CommittedCtx()
	}
	return c.App.BaseApp.NewContext(false, c.Header)
}

// CommittedCtx reads the last committed state (valid between Commit and the next BeginBlock).
func (c *Chain) CommittedCtx() sdk.Context {
	return c.App.BaseApp.NewUncachedContext(false, c.Header)
}

// CheckCtx is the check-state context.
func (c *Chain) CheckCtx() sdk.Context {
	return c.App.BaseApp.NewContext(true, c.Header)
}

// DeliverTx delivers raw transaction bytes.
func (c *Chain) DeliverTx(tx []byte) (res abci.ResponseDeliverTx) {
	if c.SimOnly {
		// a node-local simulation (what the tx simulation and gas estimation endpoints run): the
		// transaction is executed against the check state and is not part of any block
		c.Simulated++
		func() {
			defer func() {
				if r := recover(); r != nil {
					res = abci.ResponseDeliverTx{Code: 111222, Log: fmt.Sprintf("panic in simulation: %v", r)}
				}
			}()
			gi, r, err := c.App.Simulate(tx)
			if err != nil {
				res = abci.ResponseDeliverTx{Code: 1, Log: err.Error(), GasUsed: int64(gi.GasUsed)}
				return
			}
			res = abci.ResponseDeliverTx{Code: 0, Data: r.Data, Log: r.Log, GasUsed: int64(gi.GasUsed), GasWanted: int64(gi.GasWanted)}
		}()
		return res
	}
	c.guard("DeliverTx", func() { res = c.App.DeliverTx(abci.RequestDeliverTx{Tx: tx}) })
	if c.cur != nil {
		c.cur.Txs = append(c.cur.Txs, tx)
		c.cur.TxResults = append(c.cur.TxResults, TxRecord{Code: res.Code, Data: res.Data, GasWanted: res.GasWanted, GasUsed: res.GasUsed, Log: res.Log})
	}
	return res
}

// CheckTx runs the mempool admission check.
func (c *Chain) CheckTx(tx []byte, recheck bool) (res abci.ResponseCheckTx) {
	t := abci.CheckTxType_New
	if recheck {
		t = abci.CheckTxType_Recheck
	}
	c.guard("CheckTx", func() { res = c.App.CheckTx(abci.RequestCheckTx{Tx: tx, Type: t}) })
	return res
}

// EndBlock ends the block in progress and applies the validator updates to the mirror.
func (c *Chain) EndBlock() (res abci.ResponseEndBlock) {
	if !c.InBlock || c.Halted != nil {
		return
	}
	c.guard("EndBlock", func() { res = c.App.EndBlock(abci.RequestEndBlock{Height: c.Height}) })
	if c.Halted != nil {
		return
	}
	c.LastEndBlock = res
	if c.cur != nil {
		c.cur.ValUpdates = res.ValidatorUpdates
		c.cur.ConsParams = res.ConsensusParamUpdates
	}
	if len(res.ValidatorUpdates) > 0 {
		if err := c.applyValUpdates(res.ValidatorUpdates); err != nil && c.ValSetErr == nil {
			c.ValSetErr = fmt.Errorf("height %d: %w", c.Height, err)
		}
	}
	return res
}

func (c *Chain) applyValUpdates(ups []abci.ValidatorUpdate) error {
	vals, err := tmtypes.PB2TM.ValidatorUpdates(ups)
	if err != nil {
		return err
	}
	// what CometBFT's validateValidatorUpdates does first
	for _, u := range ups {
		if u.Power < 0 {
			return fmt.Errorf("negative power in update")
		}
	}
	cp := c.ValSet.Copy()
	if err := cp.UpdateWithChangeSet(vals); err != nil {
		return err
	}
	c.ValSet = cp
	return nil
}

// Commit commits the block in progress.
func (c *Chain) Commit() {
	if !c.InBlock || c.Halted != nil {
		return
	}
	c.guard("Commit", func() {
		res := c.App.Commit()
		c.AppHash = res.Data
	})
	c.InBlock = false
	if c.cur != nil {
		c.cur.AppHash = c.AppHash
		c.Blocks = append(c.Blocks, *c.cur)
		c.cur = nil
	}
}

// NextBlock = EndBlock, Commit, BeginBlock(dt).
func (c *Chain) NextBlock(dt time.Duration) abci.ResponseEndBlock {
	res := c.EndBlock()
	c.Commit()
	c.BeginBlock(dt, nil)
	return res
}

// Replay executes recorded blocks from genesis on a fresh chain for the same world. After the
// commit of every height in restarts the application object is discarded and re-opened on the
// same database (a node restart). The returned chain has its own transcript (Blocks).
func Replay(w *World, blocks []BlockRecord, restarts map[int64]bool) (*Chain, error) {
	c, err := NewChain(w)
	if err != nil {
		return nil, err
	}
	c.Record = true
	for _, b := range blocks {
		dt := b.Time.Sub(c.Time)
		c.BeginBlock(dt, b.Opts)
		for _, tx := range b.Txs {
			c.DeliverTx(tx)
		}
		c.EndBlock()
		c.Commit()
		if c.Halted != nil {
			return c, c.Halted
		}
		if restarts[b.Height] {
			if err := c.Restart(); err != nil {
				return c, err
			}
		}
	}
	return c, nil
}

// CompareTranscripts returns a description of the first difference between two transcripts
// (app hash, transaction results, validator updates, consensus parameter updates), or "".
func CompareTranscripts(a, b []BlockRecord) string {
	n := len(a)
	if len(b) < n {
		n = len(b)
	}
	for i := 0; i < n; i++ {
		x, y := a[i], b[i]
		if x.Height != y.Height {
			return fmt.Sprintf("block %d: heights %d vs %d", i, x.Height, y.Height)
		}
		if len(x.TxResults) != len(y.TxResults) {
			return fmt.Sprintf("height %d: %d vs %d transaction results", x.Height, len(x.TxResults), len(y.TxResults))
		}
		for j := range x.TxResults {
			p, q := x.TxResults[j], y.TxResults[j]
			if p.Code != q.Code || string(p.Data) != string(q.Data) || p.GasWanted != q.GasWanted || p.GasUsed != q.GasUsed {
				return fmt.Sprintf("height %d tx %d: result (code %d, gas %d/%d, %d data bytes, log %.120q) vs (code %d, gas %d/%d, %d data bytes, log %.120q)", x.Height, j, p.Code, p.GasUsed, p.GasWanted, len(p.Data), p.Log, q.Code, q.GasUsed, q.GasWanted, len(q.Data), q.Log)
			}
		}
		if encUpdates(x.ValUpdates) != encUpdates(y.ValUpdates) {
			return fmt.Sprintf("height %d: validator updates %x vs %x", x.Height, encUpdates(x.ValUpdates), encUpdates(y.ValUpdates))
		}
		if encParams(x.ConsParams) != encParams(y.ConsParams) {
			return fmt.Sprintf("height %d: consensus parameter updates differ", x.Height)
		}
		if string(x.AppHash) != string(y.AppHash) {
			return fmt.Sprintf("height %d: app hash %x vs %x", x.Height, x.AppHash, y.AppHash)
		}
	}
	if len(a) != len(b) {
		return fmt.Sprintf("transcripts have %d vs %d blocks", len(a), len(b))
	}
	return ""
}

// StartRecordingCurrentBlock makes the block already in progress part of the transcript.
func (c *Chain) StartRecordingCurrentBlock() {
	if c.InBlock && c.cur == nil {
		c.cur = &BlockRecord{Height: c.Height, Time: c.Time}
	}
}

func encUpdates(ups []abci.ValidatorUpdate) string {
	out := ""
	for _, u := range ups {
		bz, _ := u.Marshal()
		out += fmt.Sprintf("%x|", bz)
	}
	return out
}

func encParams(p *tmproto.ConsensusParams) string {
	if p == nil {
		return ""
	}
	bz, _ := p.Marshal()
	return fmt.Sprintf("%x", bz)
}
