package sim

import (
	"crypto/sha256"
	"encoding/hex"
	"fmt"
	"math/big"
	"reflect"
	"sort"
	"strings"

	oraclekeeper "github.com/ExocoreNetwork/exocore/x/oracle/keeper"
)

// DeepDump renders any value canonically (maps sorted by rendered key, pointer cycles cut,
// unexported fields included) so that two in-memory states can be compared byte by byte.
func DeepDump(v interface{}) string {
	var sb strings.Builder
	dump(&sb, reflect.ValueOf(v), map[uintptr]bool{}, 0)
	return sb.String()
}

// skipFields are left out of dumps (set by OracleMemDumpNoNonce).
var skipFields = map[string]bool{}

var bigIntType = reflect.TypeOf(big.Int{})

func dump(sb *strings.Builder, v reflect.Value, seen map[uintptr]bool, depth int) {
	if !v.IsValid() {
		sb.WriteString("nil")
		return
	}
	if depth > 40 {
		sb.WriteString("<deep>")
		return
	}
	switch v.Kind() {
	case reflect.Ptr:
		if v.IsNil() {
			sb.WriteString("nil")
			return
		}
		if v.Elem().Type() == bigIntType {
			dumpBig(sb, v.Elem())
			return
		}
		p := v.Pointer()
		if seen[p] {
			sb.WriteString("<cycle>")
			return
		}
		seen[p] = true
		sb.WriteString("&")
		dump(sb, v.Elem(), seen, depth+1)
		delete(seen, p)
	case reflect.Interface:
		if v.IsNil() {
			sb.WriteString("nil")
			return
		}
		dump(sb, v.Elem(), seen, depth+1)
	case reflect.Struct:
		if v.Type() == bigIntType {
			dumpBig(sb, v)
			return
		}
		sb.WriteString(v.Type().Name() + "{")
		for i := 0; i < v.NumField(); i++ {
			name := v.Type().Field(i).Name
			if strings.HasPrefix(name, "XXX_") || skipFields[name] {
				continue
			}
			sb.WriteString(name + ":")
			dump(sb, v.Field(i), seen, depth+1)
			sb.WriteString(",")
		}
		sb.WriteString("}")
	case reflect.Map:
		if v.IsNil() {
			sb.WriteString("nil")
			return
		}
		type kv struct{ k, v string }
		var items []kv
		it := v.MapRange()
		for it.Next() {
			var kb, vb strings.Builder
			dump(&kb, it.Key(), seen, depth+1)
			dump(&vb, it.Value(), seen, depth+1)
			items = append(items, kv{kb.String(), vb.String()})
		}
		sort.Slice(items, func(i, j int) bool { return items[i].k < items[j].k })
		sb.WriteString("map[")
		for _, it := range items {
			sb.WriteString(it.k + "=>" + it.v + ";")
		}
		sb.WriteString("]")
	case reflect.Slice, reflect.Array:
		if v.Kind() == reflect.Slice && v.IsNil() {
			sb.WriteString("nil")
			return
		}
		sb.WriteString("[")
		for i := 0; i < v.Len(); i++ {
			dump(sb, v.Index(i), seen, depth+1)
			sb.WriteString(",")
		}
		sb.WriteString("]")
	case reflect.String:
		fmt.Fprintf(sb, "%q", v.String())
	case reflect.Bool:
		fmt.Fprintf(sb, "%v", v.Bool())
	case reflect.Int, reflect.Int8, reflect.Int16, reflect.Int32, reflect.Int64:
		fmt.Fprintf(sb, "%d", v.Int())
	case reflect.Uint, reflect.Uint8, reflect.Uint16, reflect.Uint32, reflect.Uint64, reflect.Uintptr:
		fmt.Fprintf(sb, "%d", v.Uint())
	case reflect.Float32, reflect.Float64:
		fmt.Fprintf(sb, "%g", v.Float())
	case reflect.Func, reflect.Chan, reflect.UnsafePointer:
		sb.WriteString("<" + v.Kind().String() + ">")
	default:
		sb.WriteString("<?>")
	}
}

// dumpBig renders a big.Int from its unexported fields (neg, abs) without calling methods.
func dumpBig(sb *strings.Builder, v reflect.Value) {
	neg := v.Field(0).Bool()
	abs := v.Field(1)
	x := new(big.Int)
	for i := abs.Len() - 1; i >= 0; i-- {
		x.Lsh(x, 64)
		x.Or(x, new(big.Int).SetUint64(abs.Index(i).Uint()))
	}
	if neg {
		x.Neg(x)
	}
	sb.WriteString("big(" + x.String() + ")")
}

// OracleMemDump is the canonical dump of the oracle's process-global memory.
func OracleMemDump() string {
	agc, agcCheck, caches, updated := oraclekeeper.VerifGlobals()
	_ = agcCheck // the CheckTx copy is rebuilt from the deliver state on demand; not consensus relevant
	return "agc=" + DeepDump(agc) + "\ncaches=" + DeepDump(caches) + "\nupdated=" + DeepDump(updated)
}

// OracleMemDumpNoNonce is OracleMemDump without the filter's per-validator nonce sets (the
// in-memory copy of the validators' nonces).
func OracleMemDumpNoNonce() string {
	skipFields["validatorNonce"] = true
	defer delete(skipFields, "validatorNonce")
	return OracleMemDump()
}

// OracleMemDigest hashes OracleMemDump.
func OracleMemDigest() string {
	h := sha256.Sum256([]byte(OracleMemDump()))
	return hex.EncodeToString(h[:])
}
