package sim

import (
	"encoding/hex"
	"fmt"

	"github.com/ethereum/go-ethereum/common"
)

// Hand-assembled EVM contracts placed into the genesis of worlds that ask for them (C19). No
// compiler is available in the sandbox, so the byte code is written out with a tiny assembler.

// asm assembles a list of items: a string "xx.." is raw hex, {"label"} defines a JUMPDEST,
// {"@label"} pushes the label's offset with PUSH1.
func asm(items ...interface{}) []byte {
	type ref struct {
		pos   int
		label string
	}
	var out []byte
	labels := map[string]int{}
	var refs []ref
	for _, it := range items {
		switch v := it.(type) {
		case string:
			b, err := hex.DecodeString(v)
			if err != nil {
				panic(fmt.Sprintf("asm: bad hex %q", v))
			}
			out = append(out, b...)
		case []string:
			if len(v) != 1 {
				panic("asm: bad label item")
			}
			if v[0][0] == '@' {
				out = append(out, 0x60, 0x00)
				refs = append(refs, ref{len(out) - 1, v[0][1:]})
			} else {
				labels[v[0]] = len(out)
				out = append(out, 0x5b)
			}
		case []byte:
			out = append(out, v...)
		default:
			panic("asm: bad item")
		}
	}
	for _, r := range refs {
		p, ok := labels[r.label]
		if !ok || p > 255 {
			panic("asm: unknown or far label " + r.label)
		}
		out[r.pos] = byte(p)
	}
	return out
}

func lbl(s string) []string { return []string{s} }

var (
	// StorerAddr: stores the first calldata word at slot 0 and stops.
	StorerAddr = common.HexToAddress("0xc0de000000000000000000000000000000000001")
	// ReverterAddr: stores the first calldata word at slot 0, then reverts.
	ReverterAddr = common.HexToAddress("0xc0de000000000000000000000000000000000002")
	// BurnerAddr: loops until the gas is gone.
	BurnerAddr = common.HexToAddress("0xc0de000000000000000000000000000000000003")
	// ForwarderAddr: forwards calldata[21:] to the address in calldata[1:21], records the call's
	// success flag at slot 0, then acts on the mode byte calldata[0]: 0 stop, 1 revert, 2 burn
	// all gas, 3 invalid opcode. In worlds with GatewayContract it is the configured gateway.
	ForwarderAddr = common.HexToAddress("0xc0de000000000000000000000000000000000004")
	// OtherForwarderAddr: the same code at an address that is not the gateway.
	OtherForwarderAddr = common.HexToAddress("0xc0de000000000000000000000000000000000005")
)

func storerCode() []byte   { return asm("600035600055", "00") }
func reverterCode() []byte { return asm("600035600055", "60006000fd") }
func burnerCode() []byte   { return asm(lbl("loop"), lbl("@loop"), "56") }

// forwarderCode: calldata = mode (1 byte) | target (20 bytes) | payload. The low nibble of the
// mode byte says what happens after the inner call (0 stop, 1 revert, 2 burn all gas, 3 invalid
// opcode), the high nibble how the target is called (0 CALL, 1 STATICCALL, 2 DELEGATECALL).
func forwarderCode() []byte {
	target := []interface{}{"6001", "35", "6060", "1c"} // calldataload(1) >> 96
	items := []interface{}{
		"6015", "36", "03", // size-21
		"80", "6015", "6000", "37", // calldatacopy(0, 21, size-21)
		"600035", "60fc", "1c", // kind = calldata[0] >> 4
		"80", "6001", "14", lbl("@static"), "57",
		"80", "6002", "14", lbl("@delegate"), "57",
		"50",                                 // pop kind
		"6000", "6000", "82", "6000", "6000", // retSize retOffset argsSize argsOffset value
	}
	items = append(items, target...)
	items = append(items, "5a", "f1", lbl("@after"), "56") // call(gas, target, 0, 0, size-21, 0, 0)
	items = append(items, lbl("static"), "50", "6000", "6000", "82", "6000")
	items = append(items, target...)
	items = append(items, "5a", "fa", lbl("@after"), "56") // staticcall(gas, target, 0, size-21, 0, 0)
	items = append(items, lbl("delegate"), "50", "6000", "6000", "82", "6000")
	items = append(items, target...)
	items = append(items, "5a", "f4") // delegatecall(gas, target, 0, size-21, 0, 0)
	items = append(items,
		lbl("after"),
		"6000", "55", // sstore(0, success)
		"50",                                 // pop size-21
		"600035", "60f8", "1c", "600f", "16", // mode = calldata[0] & 0x0f
		"80", "6001", "14", lbl("@revert"), "57",
		"80", "6002", "14", lbl("@loop"), "57",
		"6003", "14", lbl("@invalid"), "57",
		"00",
		lbl("revert"), "60006000fd",
		lbl("loop"), lbl("@loop"), "56",
		lbl("invalid"), "fe",
	)
	return asm(items...)
}

// CreateInitCode returns contract creation code: ok=true deploys the storer, ok=false reverts
// in the constructor.
func CreateInitCode(ok bool) []byte {
	if !ok {
		return asm("600160005560006000fd") // sstore(0,1); revert
	}
	rt := storerCode()
	// codecopy(0, offset, len); return(0, len)
	prefix := asm(fmt.Sprintf("60%02x", len(rt)), "80", "600b", "6000", "39", "6000", "f3")
	if len(prefix) != 11 {
		panic("init code prefix length")
	}
	return append(prefix, rt...)
}

// GenesisContracts lists the contracts of a C19 world.
func GenesisContracts() map[common.Address][]byte {
	return map[common.Address][]byte{
		StorerAddr: storerCode(), ReverterAddr: reverterCode(), BurnerAddr: burnerCode(),
		ForwarderAddr: forwarderCode(), OtherForwarderAddr: forwarderCode(),
	}
}
