// Package sim is the shared machinery of the exocore property checks: a deterministic world
// (genesis) builder, a chain driver that plays CometBFT's role against the real ExocoreApp,
// transaction builders and store observers.
package sim

import (
	"crypto/sha256"
	"fmt"

	keytypes "github.com/ExocoreNetwork/exocore/types/keys"
	"github.com/cosmos/cosmos-sdk/crypto/keys/ed25519"
	sdk "github.com/cosmos/cosmos-sdk/types"
	"github.com/ethereum/go-ethereum/common"
	"github.com/evmos/evmos/v16/crypto/ethsecp256k1"
)

// seedBytes derives 32 deterministic bytes from a world seed, a role and an index.
func seedBytes(seed uint64, role string, idx int) []byte {
	h := sha256.Sum256([]byte(fmt.Sprintf("exoverif/%d/%s/%d", seed, role, idx)))
	return h[:]
}

// AccountKey is a deterministic eth_secp256k1 account.
type AccountKey struct {
	Priv *ethsecp256k1.PrivKey
	Addr common.Address
}

func (a AccountKey) Acc() sdk.AccAddress { return sdk.AccAddress(a.Addr.Bytes()) }
func (a AccountKey) Bech32() string      { return a.Acc().String() }

func NewAccountKey(seed uint64, role string, idx int) AccountKey {
	priv := &ethsecp256k1.PrivKey{Key: seedBytes(seed, role, idx)}
	return AccountKey{Priv: priv, Addr: common.BytesToAddress(priv.PubKey().Address().Bytes())}
}

// ConsKey is a deterministic ed25519 consensus key.
type ConsKey struct {
	Priv    *ed25519.PrivKey
	Wrapped keytypes.WrappedConsKey
}

func NewConsKey(seed uint64, role string, idx int) ConsKey {
	priv := ed25519.GenPrivKeyFromSecret(seedBytes(seed, role, idx))
	return ConsKey{Priv: priv, Wrapped: keytypes.NewWrappedConsKeyFromSdkKey(priv.PubKey())}
}

func (c ConsKey) ConsAddr() sdk.ConsAddress { return c.Wrapped.ToConsAddr() }
func (c ConsKey) Hex() string               { return c.Wrapped.ToHex() }
