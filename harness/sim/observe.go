package sim

import (
	"bytes"
	"crypto/sha256"
	"encoding/hex"
	"fmt"
	"sort"

	sdk "github.com/cosmos/cosmos-sdk/types"
)

// KV is one raw store entry.
type KVPair struct {
	Key   []byte
	Value []byte
}

// Dump returns the ordered content of a module store as seen by ctx (white-box observation
// only; the harness never writes a store).
func (c *Chain) Dump(ctx sdk.Context, storeName string) []KVPair {
	key := c.App.GetKey(storeName)
	if key == nil {
		panic("no store " + storeName)
	}
	st := ctx.KVStore(key)
	it := st.Iterator(nil, nil)
	defer it.Close()
	var out []KVPair
	for ; it.Valid(); it.Next() {
		out = append(out, KVPair{Key: append([]byte{}, it.Key()...), Value: append([]byte{}, it.Value()...)})
	}
	return out
}

// Snapshot is a set of store dumps.
type Snapshot map[string][]KVPair

// RestakingStores are the stores of the restaking modules plus bank/auth, which the
// "nothing else changed" clauses talk about.
var RestakingStores = []string{"assets", "delegation", "operator", "dogfood", "avs", "oracle", "exoslash", "reward", "exomint", "feedistribution", "epochs"}

func (c *Chain) Snap(ctx sdk.Context, stores ...string) Snapshot {
	s := Snapshot{}
	for _, n := range stores {
		s[n] = c.Dump(ctx, n)
	}
	return s
}

// Digest is a sha256 over the whole snapshot.
func (s Snapshot) Digest() string {
	names := make([]string, 0, len(s))
	for n := range s {
		names = append(names, n)
	}
	sort.Strings(names)
	h := sha256.New()
	for _, n := range names {
		h.Write([]byte(n))
		for _, kv := range s[n] {
			h.Write([]byte{0})
			h.Write(kv.Key)
			h.Write([]byte{1})
			h.Write(kv.Value)
		}
	}
	return hex.EncodeToString(h.Sum(nil))
}

// DiffEntry is one changed key.
type DiffEntry struct {
	Store  string
	Key    []byte
	Before []byte // nil = absent
	After  []byte // nil = absent
}

func (d DiffEntry) String() string {
	return fmt.Sprintf("%s[%q]: %x -> %x", d.Store, d.Key, d.Before, d.After)
}

// Diff lists all keys that differ between two snapshots (stores present in a).
func Diff(a, b Snapshot) []DiffEntry {
	var out []DiffEntry
	names := make([]string, 0, len(a))
	for n := range a {
		names = append(names, n)
	}
	sort.Strings(names)
	for _, n := range names {
		x, y := a[n], b[n]
		i, j := 0, 0
		for i < len(x) || j < len(y) {
			switch {
			case j >= len(y) || (i < len(x) && bytes.Compare(x[i].Key, y[j].Key) < 0):
				out = append(out, DiffEntry{Store: n, Key: x[i].Key, Before: x[i].Value})
				i++
			case i >= len(x) || bytes.Compare(x[i].Key, y[j].Key) > 0:
				out = append(out, DiffEntry{Store: n, Key: y[j].Key, After: y[j].Value})
				j++
			default:
				if !bytes.Equal(x[i].Value, y[j].Value) {
					out = append(out, DiffEntry{Store: n, Key: x[i].Key, Before: x[i].Value, After: y[j].Value})
				}
				i++
				j++
			}
		}
	}
	return out
}
