package sim

import (
	oracletypes "github.com/ExocoreNetwork/exocore/x/oracle/types"
	sdk "github.com/cosmos/cosmos-sdk/types"
	"github.com/cosmos/cosmos-sdk/types/tx/signing"
	authsigning "github.com/cosmos/cosmos-sdk/x/auth/signing"
)

// PriceSig selects how an oracle price transaction is signed.
type PriceSig int

const (
	SigValid    PriceSig = iota // signed by the key named in the signer info
	SigZero                     // right public key, all-zero signature (forged)
	SigOtherKey                 // signed by another key than the one in the signer info
	SigMissing                  // signer info without signature bytes
)

// PriceEntry is one (source round, value) of a submission.
type PriceEntry struct {
	Price     string
	Decimal   int32
	Timestamp string
	DetID     string
}

// BuildPriceMsg builds a MsgCreatePrice attributed to the validator that owns key.
func BuildPriceMsg(key ConsKey, feederID uint64, sourceID uint64, entries []PriceEntry, basedBlock uint64, nonce int32) *oracletypes.MsgCreatePrice {
	ps := &oracletypes.PriceSource{SourceID: sourceID}
	for _, e := range entries {
		ps.Prices = append(ps.Prices, &oracletypes.PriceTimeDetID{Price: e.Price, Decimal: e.Decimal, Timestamp: e.Timestamp, DetID: e.DetID})
	}
	return &oracletypes.MsgCreatePrice{
		Creator:    sdk.AccAddress(key.Priv.PubKey().Address()).String(),
		FeederID:   feederID,
		Prices:     []*oracletypes.PriceSource{ps},
		BasedBlock: basedBlock,
		Nonce:      nonce,
	}
}

// BuildPriceTx signs msgs the way the price feeder does: fee-less, gas limit 0, the validator's
// ed25519 consensus key in the signer info, SIGN_MODE_DIRECT over the chain id only.
func (c *Chain) BuildPriceTx(signer ConsKey, sig PriceSig, other ConsKey, msgs ...sdk.Msg) ([]byte, error) {
	txBuilder := encCfg.TxConfig.NewTxBuilder()
	if err := txBuilder.SetMsgs(msgs...); err != nil {
		return nil, err
	}
	txBuilder.SetGasLimit(0)
	pub := signer.Priv.PubKey()
	mode := signing.SignMode_SIGN_MODE_DIRECT
	s := signing.SignatureV2{PubKey: pub, Data: &signing.SingleSignatureData{SignMode: mode}, Sequence: 0}
	if err := txBuilder.SetSignatures(s); err != nil {
		return nil, err
	}
	bytesToSign, err := encCfg.TxConfig.SignModeHandler().GetSignBytes(mode, authsigning.SignerData{ChainID: c.W.Cfg.ChainID}, txBuilder.GetTx())
	if err != nil {
		return nil, err
	}
	var sigBytes []byte
	switch sig {
	case SigValid:
		sigBytes, err = signer.Priv.Sign(bytesToSign)
	case SigZero:
		sigBytes = make([]byte, 64)
	case SigOtherKey:
		sigBytes, err = other.Priv.Sign(bytesToSign)
	case SigMissing:
		sigBytes = nil
	}
	if err != nil {
		return nil, err
	}
	s.Data = &signing.SingleSignatureData{SignMode: mode, Signature: sigBytes}
	if err := txBuilder.SetSignatures(s); err != nil {
		return nil, err
	}
	return encCfg.TxConfig.TxEncoder()(txBuilder.GetTx())
}

// BuildPriceTxMulti builds a create-price transaction with several signers: signature i carries
// the public key of signers[i] and is made with the private key of signWith[i] (the honest case
// is signWith == signers; a forged co-signature uses somebody else's key).
func (c *Chain) BuildPriceTxMulti(signers, signWith []ConsKey, msgs ...sdk.Msg) ([]byte, error) {
	txBuilder := encCfg.TxConfig.NewTxBuilder()
	if err := txBuilder.SetMsgs(msgs...); err != nil {
		return nil, err
	}
	txBuilder.SetGasLimit(0)
	mode := signing.SignMode_SIGN_MODE_DIRECT
	sigs := make([]signing.SignatureV2, len(signers))
	for i, k := range signers {
		sigs[i] = signing.SignatureV2{PubKey: k.Priv.PubKey(), Data: &signing.SingleSignatureData{SignMode: mode}, Sequence: 0}
	}
	if err := txBuilder.SetSignatures(sigs...); err != nil {
		return nil, err
	}
	bytesToSign, err := encCfg.TxConfig.SignModeHandler().GetSignBytes(mode, authsigning.SignerData{ChainID: c.W.Cfg.ChainID}, txBuilder.GetTx())
	if err != nil {
		return nil, err
	}
	for i := range signers {
		sb, err := signWith[i].Priv.Sign(bytesToSign)
		if err != nil {
			return nil, err
		}
		sigs[i].Data = &signing.SingleSignatureData{SignMode: mode, Signature: sb}
	}
	if err := txBuilder.SetSignatures(sigs...); err != nil {
		return nil, err
	}
	return encCfg.TxConfig.TxEncoder()(txBuilder.GetTx())
}
