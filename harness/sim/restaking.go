package sim

import (
	"fmt"
	"math/big"

	sdkmath "cosmossdk.io/math"
	assetsprecompile "github.com/ExocoreNetwork/exocore/precompiles/assets"
	delegationprecompile "github.com/ExocoreNetwork/exocore/precompiles/delegation"
	assetstypes "github.com/ExocoreNetwork/exocore/x/assets/types"
	delegationtypes "github.com/ExocoreNetwork/exocore/x/delegation/types"
	abci "github.com/cometbft/cometbft/abci/types"
	sdk "github.com/cosmos/cosmos-sdk/types"
	"github.com/ethereum/go-ethereum/accounts/abi"
	"github.com/ethereum/go-ethereum/common"
)

var (
	AssetsPrecompileAddr     = common.HexToAddress("0x0000000000000000000000000000000000000804")
	DelegationPrecompileAddr = common.HexToAddress("0x0000000000000000000000000000000000000805")
	RewardPrecompileAddr     = common.HexToAddress("0x0000000000000000000000000000000000000806")
	BlsPrecompileAddr        = common.HexToAddress("0x0000000000000000000000000000000000000809")
	AvsPrecompileAddr        = common.HexToAddress("0x0000000000000000000000000000000000000901")
)

// ABIs are taken from the precompiles themselves so that the harness packs calldata exactly
// as a caller of the deployed chain would.
func (c *Chain) AssetsABI() abi.ABI {
	p, err := assetsprecompile.NewPrecompile(c.App.AssetsKeeper, c.App.AuthzKeeper)
	if err != nil {
		panic(err)
	}
	return p.ABI
}

func (c *Chain) DelegationABI() abi.ABI {
	p, err := delegationprecompile.NewPrecompile(c.App.AssetsKeeper, c.App.DelegationKeeper, c.App.AuthzKeeper)
	if err != nil {
		panic(err)
	}
	return p.ABI
}

// CallResult is the outcome of a precompile call made through a real Ethereum transaction.
type CallResult struct {
	Included bool   // DeliverTx code 0
	Code     uint32 // DeliverTx code
	VMError  string // EVM level failure (precompile returned an error)
	Success  bool   // first output of the precompile (the success flag); false if not decodable
	Out      []interface{}
	GasUsed  uint64
	Log      string
}

// OK reports whether the operation took effect according to the chain's own answer.
func (r CallResult) OK() bool { return r.Included && r.VMError == "" && r.Success }

// Precompile sends method(args) to a precompile from `from` through DeliverTx.
func (c *Chain) Precompile(from AccountKey, addr common.Address, a abi.ABI, method string, args ...interface{}) (CallResult, error) {
	data, err := a.Pack(method, args...)
	if err != nil {
		return CallResult{}, fmt.Errorf("pack %s: %w", method, err)
	}
	return c.PrecompileRaw(from, addr, a, method, data)
}

// PrecompileRaw is Precompile with pre-packed calldata.
func (c *Chain) PrecompileRaw(from AccountKey, addr common.Address, a abi.ABI, method string, data []byte) (CallResult, error) {
	resp, res, err := c.EthCall(from, addr, data, 0)
	out := CallResult{Code: res.Code, Log: res.Log}
	if err != nil {
		return out, err
	}
	if resp == nil {
		return out, nil
	}
	out.Included = true
	out.VMError = resp.VmError
	out.GasUsed = resp.GasUsed
	if resp.VmError == "" && len(resp.Ret) > 0 {
		vals, uerr := a.Unpack(method, resp.Ret)
		if uerr == nil && len(vals) > 0 {
			out.Out = vals
			if b, ok := vals[0].(bool); ok {
				out.Success = b
			}
		}
	}
	return out, nil
}

func (c *Chain) assetArgs(assetIdx int) (uint32, []byte) {
	a := c.W.Cfg.Assets[assetIdx]
	return uint32(a.LzID), common.LeftPadBytes(a.AddrBytes(), 20)
}

// DepositLST / WithdrawLST for staker address on the asset's client chain.
func (c *Chain) DepositLST(from AccountKey, assetIdx int, staker common.Address, amount *big.Int) (CallResult, error) {
	lz, addr := c.assetArgs(assetIdx)
	return c.Precompile(from, AssetsPrecompileAddr, c.AssetsABI(), assetsprecompile.MethodDepositLST, lz, pad32(addr), pad32(staker.Bytes()), amount)
}

func (c *Chain) WithdrawLST(from AccountKey, assetIdx int, staker common.Address, amount *big.Int) (CallResult, error) {
	lz, addr := c.assetArgs(assetIdx)
	return c.Precompile(from, AssetsPrecompileAddr, c.AssetsABI(), assetsprecompile.MethodWithdrawLST, lz, pad32(addr), pad32(staker.Bytes()), amount)
}

func (c *Chain) DepositNST(from AccountKey, assetIdx int, validatorPubkey []byte, staker common.Address, amount *big.Int) (CallResult, error) {
	lz, _ := c.assetArgs(assetIdx)
	return c.Precompile(from, AssetsPrecompileAddr, c.AssetsABI(), assetsprecompile.MethodDepositNST, lz, validatorPubkey, pad32(staker.Bytes()), amount)
}

func (c *Chain) WithdrawNST(from AccountKey, assetIdx int, validatorPubkey []byte, staker common.Address, amount *big.Int) (CallResult, error) {
	lz, _ := c.assetArgs(assetIdx)
	return c.Precompile(from, AssetsPrecompileAddr, c.AssetsABI(), assetsprecompile.MethodWithdrawNST, lz, validatorPubkey, pad32(staker.Bytes()), amount)
}

// NextLzNonce returns the next LayerZero nonce of a client chain (one monotone counter per
// chain, as the gateway guarantees).
func (c *Chain) NextLzNonce(lz uint64) uint64 {
	c.LzNonce[lz]++
	return c.LzNonce[lz]
}

func (c *Chain) Delegate(from AccountKey, assetIdx int, staker common.Address, operator sdk.AccAddress, amount *big.Int, lzNonce uint64) (CallResult, error) {
	lz, addr := c.assetArgs(assetIdx)
	return c.Precompile(from, DelegationPrecompileAddr, c.DelegationABI(), delegationprecompile.MethodDelegate,
		lz, lzNonce, pad32(addr), pad32(staker.Bytes()), []byte(operator.String()), amount)
}

func (c *Chain) Undelegate(from AccountKey, assetIdx int, staker common.Address, operator sdk.AccAddress, amount *big.Int, lzNonce uint64) (CallResult, error) {
	lz, addr := c.assetArgs(assetIdx)
	return c.Precompile(from, DelegationPrecompileAddr, c.DelegationABI(), delegationprecompile.MethodUndelegate,
		lz, lzNonce, pad32(addr), pad32(staker.Bytes()), []byte(operator.String()), amount)
}

func (c *Chain) Associate(from AccountKey, lz uint64, staker common.Address, operator sdk.AccAddress) (CallResult, error) {
	return c.Precompile(from, DelegationPrecompileAddr, c.DelegationABI(), delegationprecompile.MethodAssociateOperatorWithStaker,
		uint32(lz), pad32(staker.Bytes()), []byte(operator.String()))
}

func (c *Chain) Dissociate(from AccountKey, lz uint64, staker common.Address) (CallResult, error) {
	return c.Precompile(from, DelegationPrecompileAddr, c.DelegationABI(), delegationprecompile.MethodDissociateOperatorFromStaker,
		uint32(lz), pad32(staker.Bytes()))
}

// pad32 right-pads an address to the 32 bytes the gateway sends (the precompile cuts it back
// to the client chain's address length).
func pad32(b []byte) []byte {
	out := make([]byte, 32)
	copy(out, b)
	return out
}

// NativeDelegate / NativeUndelegate send MsgDelegation / MsgUndelegation for the native token.
func (c *Chain) NativeDelegate(from AccountKey, perOperator []delegationtypes.KeyValue) (abci.ResponseDeliverTx, error) {
	msg := &delegationtypes.MsgDelegation{BaseInfo: &delegationtypes.DelegationIncOrDecInfo{
		FromAddress: from.Bech32(), PerOperatorAmounts: perOperator,
	}, AssetID: assetstypes.ExocoreAssetID}
	return c.CosmosTx(from, msg)
}

func (c *Chain) NativeUndelegate(from AccountKey, perOperator []delegationtypes.KeyValue) (abci.ResponseDeliverTx, error) {
	msg := &delegationtypes.MsgUndelegation{BaseInfo: &delegationtypes.DelegationIncOrDecInfo{
		FromAddress: from.Bech32(), PerOperatorAmounts: perOperator,
	}, AssetID: assetstypes.ExocoreAssetID}
	return c.CosmosTx(from, msg)
}

// KV builds one per-operator amount entry.
func KV(operator sdk.AccAddress, amount *big.Int) delegationtypes.KeyValue {
	return delegationtypes.KeyValue{Key: operator.String(), Value: &delegationtypes.ValueField{Amount: sdkmath.NewIntFromBigInt(amount)}}
}
