package sim

import (
	"fmt"
	"math/big"

	sdkmath "cosmossdk.io/math"
	"github.com/ExocoreNetwork/exocore/utils"
	"github.com/cosmos/cosmos-sdk/client"
	clienttx "github.com/cosmos/cosmos-sdk/client/tx"
	"github.com/cosmos/cosmos-sdk/codec"
	codectypes "github.com/cosmos/cosmos-sdk/codec/types"
	cryptotypes "github.com/cosmos/cosmos-sdk/crypto/types"
	sdk "github.com/cosmos/cosmos-sdk/types"
	"github.com/cosmos/cosmos-sdk/types/tx/signing"
	authsigning "github.com/cosmos/cosmos-sdk/x/auth/signing"
	authtx "github.com/cosmos/cosmos-sdk/x/auth/tx"
	"github.com/ethereum/go-ethereum/common"
	ethtypes "github.com/ethereum/go-ethereum/core/types"
	"github.com/evmos/evmos/v16/encoding"
	evmtypes "github.com/evmos/evmos/v16/x/evm/types"

	exocoreapp "github.com/ExocoreNetwork/exocore/app"
	abci "github.com/cometbft/cometbft/abci/types"
)

var encCfg = encoding.MakeConfig(exocoreapp.ModuleBasics)

// TxConfig is the shared tx encoding configuration.
func TxConfig() client.TxConfig { return encCfg.TxConfig }

// ethSigner is a keyring-like signer over one eth_secp256k1 key (as testutil/tx.Signer).
type ethSigner struct{ priv cryptotypes.PrivKey }

func (s ethSigner) Sign(_ string, msg []byte) ([]byte, cryptotypes.PubKey, error) {
	sig, err := s.priv.Sign(msg)
	return sig, s.priv.PubKey(), err
}

func (s ethSigner) SignByAddress(_ sdk.Address, msg []byte) ([]byte, cryptotypes.PubKey, error) {
	return s.Sign("", msg)
}

// EthTxArgs describes one Ethereum transaction.
type EthTxArgs struct {
	From      AccountKey
	To        *common.Address
	Nonce     uint64
	Value     *big.Int
	GasLimit  uint64
	GasPrice  *big.Int // legacy / access-list
	GasFeeCap *big.Int // dynamic fee
	GasTipCap *big.Int
	Data      []byte
	Accesses  *ethtypes.AccessList
}

// BuildEthTx signs and encodes an Ethereum transaction as the Cosmos tx bytes a node receives.
func (c *Chain) BuildEthTx(a EthTxArgs) ([]byte, *evmtypes.MsgEthereumTx, error) {
	chainID := c.App.EvmKeeper.ChainID()
	args := &evmtypes.EvmTxArgs{
		ChainID: chainID, Nonce: a.Nonce, To: a.To, Amount: a.Value, GasLimit: a.GasLimit,
		GasPrice: a.GasPrice, GasFeeCap: a.GasFeeCap, GasTipCap: a.GasTipCap, Input: a.Data, Accesses: a.Accesses,
	}
	msg := evmtypes.NewTx(args)
	msg.From = a.From.Addr.Hex()
	signer := ethtypes.LatestSignerForChainID(chainID)
	if err := msg.Sign(signer, ethSigner{a.From.Priv}); err != nil {
		return nil, nil, err
	}
	bz, err := EncodeEthMsgs(msg)
	return bz, msg, err
}

// EncodeEthMsgs wraps signed MsgEthereumTx messages into tx bytes.
func EncodeEthMsgs(msgs ...*evmtypes.MsgEthereumTx) ([]byte, error) {
	txBuilder := encCfg.TxConfig.NewTxBuilder()
	fee := sdk.Coins{}
	gas := uint64(0)
	sdkMsgs := make([]sdk.Msg, 0, len(msgs))
	for _, m := range msgs {
		m.From = ""
		gas += m.GetGas()
		fee = fee.Add(sdk.Coin{Denom: utils.BaseDenom, Amount: sdkmath.NewIntFromBigInt(m.GetFee())})
		sdkMsgs = append(sdkMsgs, m)
	}
	if err := txBuilder.SetMsgs(sdkMsgs...); err != nil {
		return nil, err
	}
	option, err := codectypes.NewAnyWithValue(&evmtypes.ExtensionOptionsEthereumTx{})
	if err != nil {
		return nil, err
	}
	builder, ok := txBuilder.(authtx.ExtensionOptionsTxBuilder)
	if !ok {
		return nil, fmt.Errorf("no extension builder")
	}
	builder.SetExtensionOptions(option)
	txBuilder.SetGasLimit(gas)
	txBuilder.SetFeeAmount(fee)
	return encCfg.TxConfig.TxEncoder()(txBuilder.GetTx())
}

// EthCall sends calldata to a contract/precompile from an account through DeliverTx. It keeps
// the sender's nonce itself. The EVM response is decoded from the DeliverTx result.
func (c *Chain) EthCall(from AccountKey, to common.Address, data []byte, gas uint64) (*evmtypes.MsgEthereumTxResponse, abci.ResponseDeliverTx, error) {
	nonce := c.App.EvmKeeper.GetNonce(c.Ctx(), from.Addr)
	if gas == 0 {
		gas = 3_000_000
	}
	baseFee := c.App.FeeMarketKeeper.GetBaseFee(c.Ctx())
	if baseFee == nil {
		baseFee = big.NewInt(0)
	}
	price := new(big.Int).Add(baseFee, big.NewInt(1))
	bz, _, err := c.BuildEthTx(EthTxArgs{From: from, To: &to, Nonce: nonce, GasLimit: gas, GasPrice: price, Data: data})
	if err != nil {
		return nil, abci.ResponseDeliverTx{}, err
	}
	res := c.DeliverTx(bz)
	if c.Halted != nil {
		return nil, res, c.Halted
	}
	if res.Code != 0 {
		return nil, res, nil
	}
	r, err := evmtypes.DecodeTxResponse(res.Data)
	return r, res, err
}

// BuildCosmosTx signs msgs with an eth_secp256k1 account key (SIGN_MODE_DIRECT).
func (c *Chain) BuildCosmosTx(from AccountKey, gas uint64, feeAmount sdkmath.Int, msgs ...sdk.Msg) ([]byte, error) {
	ctx := c.Ctx()
	txBuilder := encCfg.TxConfig.NewTxBuilder()
	txBuilder.SetGasLimit(gas)
	txBuilder.SetFeeAmount(sdk.Coins{{Denom: utils.BaseDenom, Amount: feeAmount}})
	if err := txBuilder.SetMsgs(msgs...); err != nil {
		return nil, err
	}
	acc := c.App.AccountKeeper.GetAccount(ctx, from.Acc())
	if acc == nil {
		return nil, fmt.Errorf("no account %s", from.Bech32())
	}
	seq := acc.GetSequence()
	mode := encCfg.TxConfig.SignModeHandler().DefaultMode()
	sig := signing.SignatureV2{PubKey: from.Priv.PubKey(), Data: &signing.SingleSignatureData{SignMode: mode}, Sequence: seq}
	if err := txBuilder.SetSignatures(sig); err != nil {
		return nil, err
	}
	signerData := authsigning.SignerData{ChainID: c.W.Cfg.ChainID, AccountNumber: acc.GetAccountNumber(), Sequence: seq}
	sig, err := clienttx.SignWithPrivKey(mode, signerData, txBuilder, from.Priv, encCfg.TxConfig, seq)
	if err != nil {
		return nil, err
	}
	if err := txBuilder.SetSignatures(sig); err != nil {
		return nil, err
	}
	return encCfg.TxConfig.TxEncoder()(txBuilder.GetTx())
}

// CosmosTx builds, signs and delivers msgs; fee is gas * 10 gwei-ish flat amount.
func (c *Chain) CosmosTx(from AccountKey, msgs ...sdk.Msg) (abci.ResponseDeliverTx, error) {
	bz, err := c.BuildCosmosTx(from, 2_000_000, sdkmath.NewInt(2_000_000_000_000_000), msgs...)
	if err != nil {
		return abci.ResponseDeliverTx{}, err
	}
	return c.DeliverTx(bz), nil
}

// Codec is the application's proto codec.
func Codec() codec.Codec { return encCfg.Codec }

// ForgeMode selects how a Cosmos transaction on behalf of `claimed` is (mis)signed.
type ForgeMode int

const (
	// ForgeOwnKey: the signer info carries the attacker's own public key and signature
	ForgeOwnKey ForgeMode = iota
	// ForgeClaimedKey: the signer info carries the claimed account's public key, the signature is made with the attacker's key
	ForgeClaimedKey
	// ForgeNoSig: no signer info and no signature at all
	ForgeNoSig
)

// BuildCosmosTxForged builds a transaction whose messages name `claimed` as signer, but which
// is signed (or not) by `attacker`. Account number and sequence are the claimed account's, so
// that the signature is the only thing wrong with it.
func (c *Chain) BuildCosmosTxForged(attacker, claimed AccountKey, mode ForgeMode, gas uint64, feeAmount sdkmath.Int, msgs ...sdk.Msg) ([]byte, error) {
	ctx := c.Ctx()
	txBuilder := encCfg.TxConfig.NewTxBuilder()
	txBuilder.SetGasLimit(gas)
	txBuilder.SetFeeAmount(sdk.Coins{{Denom: utils.BaseDenom, Amount: feeAmount}})
	if err := txBuilder.SetMsgs(msgs...); err != nil {
		return nil, err
	}
	if mode == ForgeNoSig {
		return encCfg.TxConfig.TxEncoder()(txBuilder.GetTx())
	}
	var accNum, seq uint64
	if acc := c.App.AccountKeeper.GetAccount(ctx, claimed.Acc()); acc != nil {
		accNum, seq = acc.GetAccountNumber(), acc.GetSequence()
	}
	pub := attacker.Priv.PubKey()
	if mode == ForgeClaimedKey {
		pub = claimed.Priv.PubKey()
	}
	signMode := encCfg.TxConfig.SignModeHandler().DefaultMode()
	sig := signing.SignatureV2{PubKey: pub, Data: &signing.SingleSignatureData{SignMode: signMode}, Sequence: seq}
	if err := txBuilder.SetSignatures(sig); err != nil {
		return nil, err
	}
	signerData := authsigning.SignerData{ChainID: c.W.Cfg.ChainID, AccountNumber: accNum, Sequence: seq}
	signBytes, err := encCfg.TxConfig.SignModeHandler().GetSignBytes(signMode, signerData, txBuilder.GetTx())
	if err != nil {
		return nil, err
	}
	raw, err := attacker.Priv.Sign(signBytes)
	if err != nil {
		return nil, err
	}
	sig = signing.SignatureV2{PubKey: pub, Data: &signing.SingleSignatureData{SignMode: signMode, Signature: raw}, Sequence: seq}
	if err := txBuilder.SetSignatures(sig); err != nil {
		return nil, err
	}
	return encCfg.TxConfig.TxEncoder()(txBuilder.GetTx())
}
