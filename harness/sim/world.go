package sim

import (
	"bytes"
	"encoding/hex"
	"encoding/json"
	"fmt"
	"math/big"
	"sort"
	"strings"
	"time"

	"cosmossdk.io/math"
	exocoreapp "github.com/ExocoreNetwork/exocore/app"
	"github.com/ExocoreNetwork/exocore/utils"
	assetstypes "github.com/ExocoreNetwork/exocore/x/assets/types"
	avstypes "github.com/ExocoreNetwork/exocore/x/avs/types"
	delegationtypes "github.com/ExocoreNetwork/exocore/x/delegation/types"
	dogfoodtypes "github.com/ExocoreNetwork/exocore/x/dogfood/types"
	epochstypes "github.com/ExocoreNetwork/exocore/x/epochs/types"
	exoevmtypes "github.com/ExocoreNetwork/exocore/x/evm/types"
	exominttypes "github.com/ExocoreNetwork/exocore/x/exomint/types"
	distributiontypes "github.com/ExocoreNetwork/exocore/x/feedistribution/types"
	operatortypes "github.com/ExocoreNetwork/exocore/x/operator/types"
	oracletypes "github.com/ExocoreNetwork/exocore/x/oracle/types"
	sdk "github.com/cosmos/cosmos-sdk/types"
	authtypes "github.com/cosmos/cosmos-sdk/x/auth/types"
	banktypes "github.com/cosmos/cosmos-sdk/x/bank/types"
	govtypes "github.com/cosmos/cosmos-sdk/x/gov/types"
	govv1 "github.com/cosmos/cosmos-sdk/x/gov/types/v1"
	slashingtypes "github.com/cosmos/cosmos-sdk/x/slashing/types"
	stakingtypes "github.com/cosmos/cosmos-sdk/x/staking/types"
	"github.com/ethereum/go-ethereum/common"
	"github.com/ethereum/go-ethereum/common/hexutil"
	"github.com/ethereum/go-ethereum/crypto"
	"github.com/evmos/evmos/v16/encoding"
	evmostypes "github.com/evmos/evmos/v16/types"
	evmtypes "github.com/evmos/evmos/v16/x/evm/types"
	feemarkettypes "github.com/evmos/evmos/v16/x/feemarket/types"
)

// GenesisTime is fixed: nothing in a case may depend on the wall clock.
var GenesisTime = time.Date(2024, 1, 1, 0, 0, 0, 0, time.UTC)

// AssetCfg describes one restaked asset of the world.
type AssetCfg struct {
	LzID         uint64 // client chain (101 or 102)
	Addr         string // lower-case hex, 20 bytes
	Decimals     uint32
	Price        string // oracle price at genesis (integer string >= 1)
	PriceDecimal int32
	NST          bool
}

func (a AssetCfg) ID() string {
	_, id := assetstypes.GetStakerIDAndAssetIDFromStr(a.LzID, "", a.Addr)
	return id
}

func (a AssetCfg) AddrBytes() []byte { return common.FromHex(a.Addr) }

// FeederCfg configures an oracle token feeder for asset index Asset.
type FeederCfg struct {
	Asset          int
	StartBaseBlock uint64
	Interval       uint64
	EndBlock       uint64
	// ResumeAfter > 0 (needs EndBlock > 0): a second feeder for the same token starts
	// ResumeAfter blocks after EndBlock, continuing the round numbering (it gets a feeder id
	// different from the token id).
	ResumeAfter    uint64
	ResumeInterval uint64
}

// FeederInfo is one entry of the oracle's token feeder list as built into the genesis.
type FeederInfo struct {
	ID             uint64
	Token          uint64
	StartRoundID   uint64
	StartBaseBlock uint64
	Interval       uint64
	EndBlock       uint64
}

// Config is the generated part of a world. Everything else is derived from it.
type Config struct {
	Seed                 uint64
	ChainID              string
	NumOperators         int     // 2..6, all registered at genesis
	NumValidators        int     // first NumValidators operators are opted in with a key and form the genesis validator set
	SelfStake            []int64 // per operator: whole tokens of asset 0 deposited by and self-delegated to the operator (genesis)
	NumStakers           int     // extra EVM stakers (no genesis positions)
	Assets               []AssetCfg
	DogfoodAssets        []int // indexes into Assets counted for dogfood voting power
	MaxValidators        uint32
	EpochsUntilUnbonded  uint32
	MinSelfDelegation    int64
	DogfoodEpoch         string // epoch identifier of the dogfood AVS
	Commission           []string
	Feeders              []FeederCfg
	OracleMaxNonce       int32
	ExtraEpochs          []epochstypes.EpochInfo
	MintEpoch            string
	MintReward           string
	DistrEpoch           string
	CommunityTax         string
	StakerNative         string       // native balance of each staker/operator account
	NumAVS               int          // funded accounts that act as AVS / task contracts (they call the AVS precompile themselves)
	EVM                  *EVMCfg      // nil: default EVM / fee market genesis, no contracts
	Slashing             *SlashingCfg // nil: default x/slashing parameters (window of 100 blocks)
	Gov                  *GovCfg      `json:",omitempty"` // nil: default x/gov parameters (deposit in "stake", two days)
	GenesisUndelegations []delegationtypes.UndelegationRecord
	// UnpricedAssets: asset indexes whose oracle token is not bound to the asset id, so that the
	// oracle cannot price them: the voting-power update of an AVS that supports one fails
	UnpricedAssets []int `json:",omitempty"`
	// ExtraChains: LayerZero ids of further registered client chains (no assets of their own);
	// an id such as 6 (0x6) is, in hexadecimal, a prefix of the ids 0x65 and 0x66 of the two
	// chains every world has
	ExtraChains []uint64 `json:",omitempty"`
	// HistoricalEntries > 0: the dogfood module's number of retained historical headers (small
	// values make the pruning run in every block)
	HistoricalEntries uint32 `json:",omitempty"`
}

// SlashingCfg sets the x/slashing parameters, so that downtime (validators missing from the
// last commit) leads to a slash and jailing within a short history.
type SlashingCfg struct {
	Window           int64  // signed blocks window
	MinSigned        string // decimal fraction of the window that must be signed
	JailSeconds      int64  // downtime jail duration
	FractionDowntime string // slash fraction for downtime
}

// GovCfg sets the x/gov parameters so that a proposal can be funded in the native token and
// reaches the end of its voting period within a short history.
type GovCfg struct {
	MinDeposit     int64 // in the native base denomination
	DepositSeconds int64
	VotingSeconds  int64
}

// EVMCfg configures the EVM side of a world (property C19).
type EVMCfg struct {
	Contracts        bool // place the hand-assembled contracts of evmcode.go into the genesis
	GatewayContract  bool // the assets-precompile forwarder contract is the configured gateway (instead of the gateway account)
	NoBaseFee        bool
	BaseFee          string // initial base fee
	MinGasPrice      string // decimal
	MinGasMultiplier string // decimal in [0,1]
	BlockMaxGas      int64  // 0: no limit
}

// DefaultConfig returns a small, fully valid world.
func DefaultConfig(seed uint64) Config {
	return Config{
		Seed:          seed,
		ChainID:       utils.DefaultChainID,
		NumOperators:  3,
		NumValidators: 2,
		SelfStake:     []int64{300, 200, 100},
		NumStakers:    3,
		Assets: []AssetCfg{
			{LzID: 101, Addr: "0xdac17f958d2ee523a2206206994597c13d831ec7", Decimals: 6, Price: "1", PriceDecimal: 0},
			{LzID: 102, Addr: "0xa0b86991c6218b36c1d19d4a2e9eb0ce3606eb48", Decimals: 8, Price: "25", PriceDecimal: 1},
			{LzID: 101, Addr: "0xeeeeeeeeeeeeeeeeeeeeeeeeeeeeeeeeeeeeeeee", Decimals: 0, Price: "2", PriceDecimal: 0, NST: true},
		},
		DogfoodAssets:       []int{0, 1, 2},
		MaxValidators:       4,
		EpochsUntilUnbonded: 2,
		MinSelfDelegation:   0,
		DogfoodEpoch:        epochstypes.MinuteEpochID,
		OracleMaxNonce:      3,
		MintEpoch:           epochstypes.DayEpochID,
		MintReward:          "20000000000000000000",
		DistrEpoch:          epochstypes.MinuteEpochID,
		CommunityTax:        "0.02",
		StakerNative:        "1000000000000000000000",
	}
}

// World is a built genesis plus the keys that control it.
type World struct {
	Cfg       Config
	Gateway   AccountKey
	Operators []AccountKey
	ConsKeys  []ConsKey // genesis consensus keys of the first NumValidators operators
	Stakers   []AccountKey
	Other     AccountKey   // an ordinary funded account without any role
	AVSKeys   []AccountKey // accounts acting as AVS or task contracts
	AssetIDs  []string
	AvsAddr   string       // dogfood AVS address (lower-case hex string)
	Feeders   []FeederInfo // active (generated) feeders, including resumed ones
	Genesis   map[string]json.RawMessage
}

func pow10(n int) *big.Int { return new(big.Int).Exp(big.NewInt(10), big.NewInt(int64(n)), nil) }

// StakerID of an EVM address on a client chain.
func StakerID(addr common.Address, lz uint64) string {
	id, _ := assetstypes.GetStakerIDAndAssetID(lz, addr.Bytes(), nil)
	return id
}

func ethAccount(k AccountKey) *evmostypes.EthAccount {
	return &evmostypes.EthAccount{
		BaseAccount: authtypes.NewBaseAccount(k.Acc(), nil, 0, 0),
		CodeHash:    common.BytesToHash(evmtypes.EmptyCodeHash).Hex(),
	}
}

// usdValue mirrors the on-chain formula with 18-decimal truncation; used only to write a
// self-consistent genesis (the app recomputes all values at the first epoch end).
func usdValue(amount *big.Int, a AssetCfg) math.LegacyDec {
	p, _ := new(big.Int).SetString(a.Price, 10)
	v := new(big.Int).Mul(amount, p)
	return math.LegacyNewDecFromBigInt(v).QuoInt(math.NewIntFromBigInt(pow10(int(a.Decimals) + int(a.PriceDecimal))))
}

// BuildWorld creates the genesis document for cfg.
func BuildWorld(cfg Config) (*World, error) {
	if cfg.NumValidators < 1 || cfg.NumValidators > cfg.NumOperators || len(cfg.SelfStake) != cfg.NumOperators {
		return nil, fmt.Errorf("bad config")
	}
	w := &World{Cfg: cfg}
	w.Gateway = NewAccountKey(cfg.Seed, "gateway", 0)
	w.Other = NewAccountKey(cfg.Seed, "other", 0)
	for i := 0; i < cfg.NumOperators; i++ {
		w.Operators = append(w.Operators, NewAccountKey(cfg.Seed, "operator", i))
	}
	for i := 0; i < cfg.NumValidators; i++ {
		w.ConsKeys = append(w.ConsKeys, NewConsKey(cfg.Seed, "cons", i))
	}
	for i := 0; i < cfg.NumStakers; i++ {
		w.Stakers = append(w.Stakers, NewAccountKey(cfg.Seed, "staker", i))
	}
	for _, a := range cfg.Assets {
		w.AssetIDs = append(w.AssetIDs, a.ID())
	}

	encCfg := encoding.MakeConfig(exocoreapp.ModuleBasics)
	cdc := encCfg.Codec
	gs := exocoreapp.NewDefaultGenesisState(cdc)

	// ---- auth + bank
	native, ok := math.NewIntFromString(cfg.StakerNative)
	if !ok {
		return nil, fmt.Errorf("bad native amount")
	}
	var genAccs []authtypes.GenesisAccount
	var balances []banktypes.Balance
	supply := sdk.NewCoins()
	addAcc := func(k AccountKey) {
		genAccs = append(genAccs, ethAccount(k))
		c := sdk.NewCoins(sdk.NewCoin(utils.BaseDenom, native))
		balances = append(balances, banktypes.Balance{Address: k.Bech32(), Coins: c})
		supply = supply.Add(c...)
	}
	addAcc(w.Gateway)
	addAcc(w.Other)
	for _, k := range w.Operators {
		addAcc(k)
	}
	for _, k := range w.Stakers {
		addAcc(k)
	}
	for i := 0; i < cfg.NumAVS; i++ {
		w.AVSKeys = append(w.AVSKeys, NewAccountKey(cfg.Seed, "avs", i))
		addAcc(w.AVSKeys[i])
	}
	// ---- evm contracts and fee market (C19 worlds)
	if cfg.EVM != nil {
		evmGen := exoevmtypes.DefaultGenesisState()
		if cfg.EVM.Contracts {
			contracts := GenesisContracts()
			addrs := make([]common.Address, 0, len(contracts))
			for a := range contracts {
				addrs = append(addrs, a)
			}
			sort.Slice(addrs, func(i, j int) bool { return bytes.Compare(addrs[i][:], addrs[j][:]) < 0 })
			for _, a := range addrs {
				code := contracts[a]
				genAccs = append(genAccs, &evmostypes.EthAccount{
					BaseAccount: authtypes.NewBaseAccount(sdk.AccAddress(a.Bytes()), nil, 0, 0),
					CodeHash:    crypto.Keccak256Hash(code).Hex(),
				})
				evmGen.Accounts = append(evmGen.Accounts, evmtypes.GenesisAccount{Address: a.Hex(), Code: hex.EncodeToString(code)})
			}
		}
		gs[evmtypes.ModuleName] = cdc.MustMarshalJSON(evmGen)
		fm := feemarkettypes.DefaultGenesisState()
		fm.Params.NoBaseFee = cfg.EVM.NoBaseFee
		if cfg.EVM.BaseFee != "" {
			v, ok := math.NewIntFromString(cfg.EVM.BaseFee)
			if !ok {
				return nil, fmt.Errorf("bad base fee")
			}
			fm.Params.BaseFee = v
		}
		if cfg.EVM.MinGasPrice != "" {
			fm.Params.MinGasPrice = math.LegacyMustNewDecFromStr(cfg.EVM.MinGasPrice)
		}
		if cfg.EVM.MinGasMultiplier != "" {
			fm.Params.MinGasMultiplier = math.LegacyMustNewDecFromStr(cfg.EVM.MinGasMultiplier)
		}
		gs[feemarkettypes.ModuleName] = cdc.MustMarshalJSON(fm)
	}
	if cfg.Slashing != nil {
		sg := slashingtypes.DefaultGenesisState()
		sg.Params.SignedBlocksWindow = cfg.Slashing.Window
		sg.Params.MinSignedPerWindow = math.LegacyMustNewDecFromStr(cfg.Slashing.MinSigned)
		sg.Params.DowntimeJailDuration = time.Duration(cfg.Slashing.JailSeconds) * time.Second
		sg.Params.SlashFractionDowntime = math.LegacyMustNewDecFromStr(cfg.Slashing.FractionDowntime)
		gs[slashingtypes.ModuleName] = cdc.MustMarshalJSON(sg)
	}
	if cfg.Gov != nil {
		gg := govv1.DefaultGenesisState()
		gg.Params.MinDeposit = sdk.NewCoins(sdk.NewCoin(utils.BaseDenom, math.NewInt(cfg.Gov.MinDeposit)))
		dp, vp := time.Duration(cfg.Gov.DepositSeconds)*time.Second, time.Duration(cfg.Gov.VotingSeconds)*time.Second
		gg.Params.MaxDepositPeriod, gg.Params.VotingPeriod = &dp, &vp
		gs[govtypes.ModuleName] = cdc.MustMarshalJSON(gg)
	}
	gs[authtypes.ModuleName] = cdc.MustMarshalJSON(authtypes.NewGenesisState(authtypes.DefaultParams(), genAccs))
	gs[banktypes.ModuleName] = cdc.MustMarshalJSON(banktypes.NewGenesisState(
		banktypes.DefaultParams(), balances, supply, []banktypes.Metadata{}, []banktypes.SendEnabled{}))

	// ---- epochs
	epochs := epochstypes.DefaultGenesis()
	epochs.Epochs = append(epochs.Epochs, cfg.ExtraEpochs...)
	gs[epochstypes.ModuleName] = cdc.MustMarshalJSON(epochs)

	// ---- assets
	clientChains := []assetstypes.ClientChainInfo{
		{Name: "ethereum", MetaInfo: "ethereum blockchain", ChainId: 1, FinalizationBlocks: 10, LayerZeroChainID: 101, AddressLength: 20},
		{Name: "holesky", MetaInfo: "second client chain", ChainId: 17000, FinalizationBlocks: 10, LayerZeroChainID: 102, AddressLength: 20},
	}
	for i, lz := range cfg.ExtraChains {
		clientChains = append(clientChains, assetstypes.ClientChainInfo{Name: fmt.Sprintf("extra-%d", i), MetaInfo: "further client chain", ChainId: 900 + uint64(i), FinalizationBlocks: 10, LayerZeroChainID: lz, AddressLength: 20})
	}
	a0 := cfg.Assets[0]
	selfAmount := make([]*big.Int, cfg.NumOperators)
	total0 := new(big.Int)
	for i, s := range cfg.SelfStake {
		selfAmount[i] = new(big.Int).Mul(big.NewInt(s), pow10(int(a0.Decimals)))
		total0.Add(total0, selfAmount[i])
	}
	var tokens []assetstypes.StakingAssetInfo
	for i, a := range cfg.Assets {
		tot := math.ZeroInt()
		if i == 0 {
			tot = math.NewIntFromBigInt(total0)
		}
		tokens = append(tokens, assetstypes.StakingAssetInfo{
			AssetBasicInfo: assetstypes.AssetInfo{
				Name: fmt.Sprintf("asset%d", i), Symbol: fmt.Sprintf("AST%d", i), Address: a.Addr,
				Decimals: a.Decimals, LayerZeroChainID: a.LzID, MetaInfo: "generated",
			},
			StakingTotalAmount: tot,
		})
	}
	var deposits []assetstypes.DepositsByStaker
	var operatorAssets []assetstypes.AssetsByOperator
	var delegationStates []delegationtypes.DelegationStates
	var associations []delegationtypes.StakerToOperator
	var stakersByOperator []delegationtypes.StakersByOperator
	for i, op := range w.Operators {
		if selfAmount[i].Sign() == 0 {
			continue
		}
		amt := math.NewIntFromBigInt(selfAmount[i])
		sid := StakerID(op.Addr, a0.LzID)
		deposits = append(deposits, assetstypes.DepositsByStaker{
			StakerID: sid,
			Deposits: []assetstypes.DepositByAsset{{AssetID: w.AssetIDs[0], Info: assetstypes.StakerAssetInfo{
				TotalDepositAmount: amt, WithdrawableAmount: math.ZeroInt(), PendingUndelegationAmount: math.ZeroInt(),
			}}},
		})
		share := math.LegacyNewDecFromBigInt(selfAmount[i])
		operatorAssets = append(operatorAssets, assetstypes.AssetsByOperator{
			Operator: op.Bech32(),
			AssetsState: []assetstypes.AssetByID{{AssetID: w.AssetIDs[0], Info: assetstypes.OperatorAssetInfo{
				TotalAmount: amt, PendingUndelegationAmount: math.ZeroInt(), TotalShare: share, OperatorShare: share,
			}}},
		})
		delegationStates = append(delegationStates, delegationtypes.DelegationStates{
			Key:    string(assetstypes.GetJoinedStoreKey(sid, w.AssetIDs[0], op.Bech32())),
			States: delegationtypes.DelegationAmounts{WaitUndelegationAmount: math.ZeroInt(), UndelegatableShare: share},
		})
		associations = append(associations, delegationtypes.StakerToOperator{Operator: op.Bech32(), StakerID: sid})
		stakersByOperator = append(stakersByOperator, delegationtypes.StakersByOperator{
			Key: string(assetstypes.GetJoinedStoreKey(op.Bech32(), w.AssetIDs[0])), Stakers: []string{sid},
		})
	}
	assetsParams := assetstypes.DefaultParams()
	assetsParams.ExocoreLzAppAddress = strings.ToLower(w.Gateway.Addr.Hex())
	if cfg.EVM != nil && cfg.EVM.GatewayContract {
		assetsParams.ExocoreLzAppAddress = strings.ToLower(ForwarderAddr.Hex())
	}
	assetsGenesis := assetstypes.NewGenesis(assetsParams, clientChains, tokens, deposits, operatorAssets)
	if err := assetsGenesis.Validate(); err != nil {
		return nil, fmt.Errorf("assets genesis: %w", err)
	}
	gs[assetstypes.ModuleName] = cdc.MustMarshalJSON(assetsGenesis)

	// ---- oracle: one token per asset, static genesis prices, feeders as configured
	op := oracletypes.DefaultParams()
	op.Tokens = []*oracletypes.Token{{}}
	op.TokenFeeders = []*oracletypes.TokenFeeder{{}}
	for i, a := range cfg.Assets {
		bound := w.AssetIDs[i]
		for _, u := range cfg.UnpricedAssets {
			if u == i {
				bound = ""
			}
		}
		op.Tokens = append(op.Tokens, &oracletypes.Token{
			Name: fmt.Sprintf("TOK%d", i), ChainID: 1, ContractAddress: fmt.Sprintf("0x%02d", i),
			Decimal: a.PriceDecimal, Active: true, AssetID: bound,
		})
	}
	if cfg.OracleMaxNonce > 0 {
		op.MaxNonce = cfg.OracleMaxNonce
	}
	feederFor := map[int]FeederCfg{}
	for _, f := range cfg.Feeders {
		feederFor[f.Asset] = f
	}
	for i := range cfg.Assets {
		f, ok := feederFor[i]
		if !ok {
			f = FeederCfg{Asset: i, StartBaseBlock: 100000000, Interval: 10}
		}
		op.TokenFeeders = append(op.TokenFeeders, &oracletypes.TokenFeeder{
			TokenID: uint64(i + 1), RuleID: 1, StartRoundID: 2, StartBaseBlock: f.StartBaseBlock,
			Interval: f.Interval, EndBlock: f.EndBlock,
		})
		if ok {
			w.Feeders = append(w.Feeders, FeederInfo{ID: uint64(i + 1), Token: uint64(i + 1), StartRoundID: 2, StartBaseBlock: f.StartBaseBlock, Interval: f.Interval, EndBlock: f.EndBlock})
		}
	}
	for i := range cfg.Assets {
		f, ok := feederFor[i]
		if !ok || f.ResumeAfter == 0 || f.EndBlock == 0 {
			continue
		}
		iv := f.ResumeInterval
		if iv == 0 {
			iv = f.Interval
		}
		startRound := 2 + (f.EndBlock-f.StartBaseBlock)/f.Interval + 1
		op.TokenFeeders = append(op.TokenFeeders, &oracletypes.TokenFeeder{
			TokenID: uint64(i + 1), RuleID: 1, StartRoundID: startRound, StartBaseBlock: f.EndBlock + f.ResumeAfter, Interval: iv,
		})
		w.Feeders = append(w.Feeders, FeederInfo{ID: uint64(len(op.TokenFeeders) - 1), Token: uint64(i + 1), StartRoundID: startRound, StartBaseBlock: f.EndBlock + f.ResumeAfter, Interval: iv})
	}
	og := oracletypes.NewGenesisState(op)
	for i, a := range cfg.Assets {
		og.PricesList = append(og.PricesList, oracletypes.Prices{
			TokenID: uint64(i + 1), NextRoundID: 2,
			PriceList: []*oracletypes.PriceTimeRound{{Price: a.Price, Decimal: a.PriceDecimal, RoundID: 1, Timestamp: "2024-01-01 00:00:00"}},
		})
	}
	if err := og.Validate(); err != nil {
		return nil, fmt.Errorf("oracle genesis: %w", err)
	}
	gs[oracletypes.ModuleName] = cdc.MustMarshalJSON(og)

	// ---- operator
	chainIDNoRev := avstypes.ChainIDWithoutRevision(cfg.ChainID)
	w.AvsAddr = avstypes.GenerateAVSAddr(chainIDNoRev)
	var opInfos []operatortypes.OperatorDetail
	var consRecords []operatortypes.OperatorConsKeyRecord
	var optStates []operatortypes.OptedState
	var usdValues []operatortypes.OperatorUSDValue
	avsTotal := math.LegacyZeroDec()
	minSelf := math.LegacyNewDec(cfg.MinSelfDelegation)
	var valset []dogfoodtypes.GenesisValidator
	totalPower := int64(0)
	for i, o := range w.Operators {
		rate := sdk.ZeroDec()
		if i < len(cfg.Commission) {
			rate = sdk.MustNewDecFromStr(cfg.Commission[i])
		}
		opInfos = append(opInfos, operatortypes.OperatorDetail{
			OperatorAddress: o.Bech32(),
			OperatorInfo: operatortypes.OperatorInfo{
				EarningsAddr: o.Bech32(), OperatorMetaInfo: fmt.Sprintf("operator%d", i),
				Commission: stakingtypes.NewCommission(rate, sdk.OneDec(), sdk.OneDec()),
			},
		})
		if i >= cfg.NumValidators {
			continue
		}
		consRecords = append(consRecords, operatortypes.OperatorConsKeyRecord{
			OperatorAddress: o.Bech32(),
			Chains:          []operatortypes.ChainDetails{{ChainID: chainIDNoRev, ConsensusKey: w.ConsKeys[i].Hex()}},
		})
		optStates = append(optStates, operatortypes.OptedState{
			Key:     string(assetstypes.GetJoinedStoreKey(o.Bech32(), w.AvsAddr)),
			OptInfo: operatortypes.OptedInfo{OptedInHeight: 1, OptedOutHeight: operatortypes.DefaultOptedOutHeight},
		})
		v := usdValue(selfAmount[i], a0)
		active := v
		if v.LT(minSelf) {
			active = math.LegacyZeroDec()
		}
		usdValues = append(usdValues, operatortypes.OperatorUSDValue{
			Key:           string(assetstypes.GetJoinedStoreKey(w.AvsAddr, o.Bech32())),
			OptedUSDValue: operatortypes.OperatorOptedUSDValue{SelfUSDValue: v, TotalUSDValue: v, ActiveUSDValue: active},
		})
		avsTotal = avsTotal.Add(active)
		p := active.TruncateInt64()
		if p < 1 {
			return nil, fmt.Errorf("genesis validator %d has no power", i)
		}
		valset = append(valset, dogfoodtypes.GenesisValidator{PublicKey: w.ConsKeys[i].Hex(), Power: p})
		totalPower += p
	}
	operatorGenesis := operatortypes.NewGenesisState(opInfos, consRecords, optStates, usdValues,
		[]operatortypes.AVSUSDValue{{AVSAddr: w.AvsAddr, Value: operatortypes.DecValueField{Amount: avsTotal}}}, nil, nil, nil)
	if err := operatorGenesis.Validate(); err != nil {
		return nil, fmt.Errorf("operator genesis: %w", err)
	}
	gs[operatortypes.ModuleName] = cdc.MustMarshalJSON(operatorGenesis)

	// ---- delegation
	delegationGenesis := delegationtypes.NewGenesis(associations, delegationStates, stakersByOperator, cfg.GenesisUndelegations)
	if err := delegationGenesis.Validate(); err != nil {
		return nil, fmt.Errorf("delegation genesis: %w", err)
	}
	gs[delegationtypes.ModuleName] = cdc.MustMarshalJSON(delegationGenesis)

	// ---- dogfood
	var dfAssets []string
	for _, i := range cfg.DogfoodAssets {
		dfAssets = append(dfAssets, w.AssetIDs[i])
	}
	hist := uint32(dogfoodtypes.DefaultHistoricalEntries)
	if cfg.HistoricalEntries > 0 {
		hist = cfg.HistoricalEntries
	}
	dfParams := dogfoodtypes.NewParams(cfg.EpochsUntilUnbonded, cfg.DogfoodEpoch, cfg.MaxValidators,
		hist, dfAssets, math.NewInt(cfg.MinSelfDelegation))
	dogfoodGenesis := dogfoodtypes.NewGenesis(dfParams, valset,
		[]dogfoodtypes.EpochToOperatorAddrs{}, []dogfoodtypes.EpochToConsensusAddrs{},
		[]dogfoodtypes.EpochToUndelegationRecordKeys{}, math.NewInt(totalPower))
	if err := dogfoodGenesis.Validate(); err != nil {
		return nil, fmt.Errorf("dogfood genesis: %w", err)
	}
	gs[dogfoodtypes.ModuleName] = cdc.MustMarshalJSON(dogfoodGenesis)

	// ---- exomint / feedistribution
	mint := exominttypes.DefaultGenesis()
	if cfg.MintEpoch != "" {
		mint.Params.EpochIdentifier = cfg.MintEpoch
	}
	if cfg.MintReward != "" {
		r, ok := math.NewIntFromString(cfg.MintReward)
		if !ok {
			return nil, fmt.Errorf("bad mint reward")
		}
		mint.Params.EpochReward = r
	}
	gs[exominttypes.ModuleName] = cdc.MustMarshalJSON(mint)
	dp := distributiontypes.DefaultParams()
	if cfg.DistrEpoch != "" {
		dp.EpochIdentifier = cfg.DistrEpoch
	}
	if cfg.CommunityTax != "" {
		dp.CommunityTax = sdk.MustNewDecFromStr(cfg.CommunityTax)
	}
	gs[distributiontypes.ModuleName] = cdc.MustMarshalJSON(distributiontypes.NewGenesisState(dp))

	w.Genesis = gs
	return w, nil
}

// RecordKeyHex renders an undelegation record key the way the dogfood genesis expects it.
func RecordKeyHex(key []byte) string { return hexutil.Encode(key) }
