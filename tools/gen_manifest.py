#!/usr/bin/env python3
"""Regenerates MANIFEST.json from props.json + tools/manifest_texts.json (claimed checks) and properties.jsonl."""
import json, subprocess
props=[json.loads(l) for l in open('/verif/properties.jsonl')]
spec=json.load(open('/verif/props.json'))
texts=json.load(open('/verif/tools/manifest_texts.json'))
hooks=subprocess.run(['git','-C','/repo','log','--format=%h %s'],capture_output=True,text=True).stdout.splitlines()
hook_commits=[l.split()[0] for l in hooks if l.split(' ',1)[1].startswith('verif hook')]
m={
 "version":1,
 "setup_cmd":"./check --setup",
 "hooks":{"guard":"verif","enable":"go test -tags verif (the harness module /verif/harness replaces github.com/ExocoreNetwork/exocore with /repo and builds one test binary with -tags verif)",
          "baseline_off_cmd":"cd /repo && go test -vet=off -count=1 -timeout 25m ./...",
          "source_commits":hook_commits,"add_only":True},
 "engines":[{"name":"exoverif","path":"harness","serves_properties":sorted(spec.keys()),"kind_free_text":"Go module: pgregory.net/rapid v1.3.0 stateful property tests driving the real ExocoreApp through InitChain/BeginBlock/DeliverTx/EndBlock/Commit with reference models, raw store observers and a mirror of the CometBFT validator set"}],
 "checks":[], "not_applicable":[],
 "notes":"Driver: ./check <id> --tier quick|thorough [--replay f]. exit 0 held / 1 VIOLATION / 2 inconclusive. Known findings: known_findings.txt. See DESIGN.md."
}
for p in props:
    i=p['id']
    if i in spec and i in texts:
        t=texts[i]
        m["checks"].append({
         "property_id":i,"quick_cmd":"./check %s --tier quick"%i,"thorough_cmd":"./check %s --tier thorough"%i,
         "evidence_file":"evidence/%s.json"%i,"replay_cmd_template":"./check %s --replay {path}"%i,"engine":"exoverif",
         "level_claimed":{"category":spec[i]["level"],"text":t["text"],"design_ref":"DESIGN.md section 4 "+i},
         "level_note":t["note"],"technique":t["technique"]})
    else:
        m["not_applicable"].append({"property_id":i,"reason":"check under construction in this session (same technique planned, see DESIGN.md); not claimed until its check is registered"})
json.dump(m,open('/verif/MANIFEST.json','w'),indent=1)
print(len(m["checks"]),"checks,",len(m["not_applicable"]),"not claimed")
