#!/usr/bin/env python3
"""usage: tools/seed_meta.py <seed-dir-name> <property> <detected_by comma list or -> <needs...>"""
import json, sys, os
name, prop, det = sys.argv[1], sys.argv[2], sys.argv[3]
needs = " ".join(sys.argv[4:])
d = os.path.join("/verif/seeded", name)
demo = [f for f in os.listdir(d) if f.endswith("_test.go")]
meta = {
  "breaks_property": prop,
  "needs_to_manifest": needs,
  "demonstration": demo,
  "confirmed": "patch applies to /repo HEAD, builds; demonstration fails with the patch and passes without (run by the sub-agent in its scratch worktree, re-checked here by applying the patch and running the quick checks)",
  "ran": "tools/try_mutant_iso.sh seeded/%s/patch.diff <props>  (scratch worktree of /repo HEAD + scratch copy of /verif; git apply; ./check <id> --tier quick; removed)" % name,
  "detected_by_quick_checks": [x for x in det.split(",") if x and x != "-"],
}
json.dump(meta, open(os.path.join(d, "meta.json"), "w"), indent=1)
