#!/bin/bash
# usage: tools/try_mutant.sh <patch.diff> <prop> [<prop>...]   -- applies the patch to /repo, runs the quick checks, reverts
set -u
patch=$1; shift
cd /repo || exit 2
if ! git diff --quiet; then echo "repo dirty"; exit 2; fi
git apply "$patch" || { echo "patch does not apply"; exit 2; }
for p in "$@"; do
  out=$(cd /verif && VERIF_SEED=${VERIF_SEED:-1} ./check "$p" --tier ${TIER:-quick} 2>&1)
  rc=$?
  echo "== $p rc=$rc $(echo "$out" | grep -v 'rapid\] draw' | grep 'VIOLATION C\|VIOLATION property\|OK property\|INCONCLUSIVE' | head -2 | cut -c1-260 | tr '\n' ' ')"
done
git -C /repo checkout -- . ; git -C /repo clean -fdq
