#!/bin/bash
# usage: tools/try_mutant_iso.sh <patch.diff> <prop> [<prop>...]
# Like try_mutant.sh, but leaves /repo's working tree alone: the patch is applied to a scratch
# worktree of /repo's HEAD under /tmp and the quick checks run from a scratch copy of /verif whose
# harness module points at that worktree. Everything is removed afterwards. Safe to use while other
# checks are running against /repo (they only compete for the processors).
set -u
patch=$(readlink -f "$1"); shift
id=mut-$$
base=/tmp/$id
mkdir -p "$base" || exit 2
cleanup() {
  git -C /repo worktree remove --force "$base/repo" 2>/dev/null
  rm -rf "$base"
  git -C /repo worktree prune
}
trap cleanup EXIT
git -C /repo worktree add -q --detach "$base/repo" HEAD || exit 2
if [ "$patch" != "/dev/null" ]; then
  git -C "$base/repo" apply "$patch" || { echo "patch does not apply"; exit 2; }
fi
if [ -n "${REVERT:-}" ]; then
  # REVERT=<commit>: undo a repair instead of (or on top of) a patch
  git -C "$base/repo" diff "$REVERT" "$REVERT~1" | git -C "$base/repo" apply || { echo "revert does not apply"; exit 2; }
fi
rsync -a --exclude /harness/bin --exclude /out --exclude /replays --exclude /.git /verif/ "$base/verif/"
sed -i "s|=> /repo\$|=> $base/repo|" "$base/verif/harness/go.mod"
grep -q "=> $base/repo" "$base/verif/harness/go.mod" || { echo "cannot retarget harness module"; exit 2; }
for p in "$@"; do
  out=$(cd "$base/verif" && VERIF_REPO="$base/repo" VERIF_SEED=${VERIF_SEED:-1} ./check "$p" --tier ${TIER:-quick} 2>&1)
  rc=$?
  detail=$(grep -h "VIOLATION C" "$base"/verif/out/$p-*.log 2>/dev/null | grep -v "rapid\] failed" | head -1 | cut -c1-300)
  echo "== $p rc=$rc $(echo "$out" | grep 'VIOLATION property\|OK property\|INCONCLUSIVE' | head -1 | cut -c1-200) $detail"
done
